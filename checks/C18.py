"""C18: reading any text either yields models or raises a Hy syntax error, and terminates (grade R/D)."""
from vf import readerlib, strsym
from vf.xh import Ob

PREAMBLE = '''\
import sys
from vf import skel as _sk
from checks.C18 import total_ok, mut_ok, deep_ok, ALPH, ALPH3, SCAFFOLDS, PROGRAMS
'''

ALPH = "()[]{}\"\\;#'`~@^:.,| \n\ta1_-*!éfbr /=<x0N\r"

ALPH3 = "()[]{}\"\\;#'~:f x\n"   # structural characters: one more character of depth in the thorough tier

SCAFFOLDS = ["{h}", "({h})", "[{h}]", "{{{h}}}", "#{{{h}}}", "#({h})", "\"{h}\"", "f\"{h}\"", "f\"{{{h}}}\"", "f\"{{x {h}}}\"", "f\"{{x :{h}}}\"", "#[[{h}]]", "#[a[{h}]a]",
             "#[f[{h}]f]", "'{h}", "`{h}", "~{h}", "~@{h}", "#*{h}", "#**{h}", "#^{h} x", "#^ x {h}", "#_{h} y", ";{h}\nx", "(a {h} b)", "#{h}", ":{h}", "a.{h}", ".{h}", "1{h}", "b\"{h}\"",
             "r\"{h}\"", "#!{h}", "(a\n{h}", "{h})", "#[{h}[x]{h}]", "\\{h}"]

PROGRAMS = [
    "(defn f [a #* b] (+ a 1))", "(setv x \"s\\n\" y b\"q\")", "`(a ~b ~@c)", "#[[text]] 'q", "f\"a{x !r :>{w}}b\"", "{\"k\" [1 2.5 3j] :kw #{1}}", "(x.y.z #** d) ; c\n#_ skipped 5",
    "#^ int x #(1 2)", "(. a b [c])", "#[f[{x}]f]",
]


def deep_texts():
    """Deeply nested inputs: reading must stay fast (and terminate) at depths ordinary code never reaches."""
    out = []
    t = "x"
    for _ in range(24):
        t = "{x :" + t + "}" if t != "x" else "{x}"
    out.append('f"' + t + '"')                     # format specs nested 24 deep
    t = "x"
    for _ in range(13):
        t = 'f"{' + t + '}"'
    out.append(t)                                  # f-strings inside the fields of f-strings, 13 deep
    out.append("(" * 60 + "x" + ")" * 60)
    out.append("'" * 60 + "x")
    out.append("#[" + "=" * 200 + "[a]" + "=" * 199 + "]" + "=" * 200 + "]")
    out.append("(a\r\n b\r\n (c\r\n  d))\r\n\r\n(e))\r\n")   # an error on a late line of a CRLF source
    out.append("(setv x 1)\r\n(print x")
    out.append("; c\r\n\r\n\"unterminated")
    out.append("f\"" + "{{" * 300 + "\"")
    out.append("#_ " * 100 + "x")
    return out


def deep_ok(i, why=None):
    from vf import skel

    if why is None and skel.EXPLAIN[0]:
        del skel.LAST_WHY[:]
        why = skel.LAST_WHY
    r = strsym.untraced(_total, deep_texts()[i])
    if r is not None and why is not None:
        why.append(r)
    return r is None


def _total(text):
    r = readerlib.read_all(text)
    if r[0] == "ok" or r[0] == "lex":
        return None
    if r[0] == "timeout":
        return "reading %r did not terminate within 5 s" % (text,)
    return "reading %r raised %s: %s" % (text, r[1], r[2])


def total_ok(si, h, why=None):
    from vf import skel

    if why is None and skel.EXPLAIN[0]:
        del skel.LAST_WHY[:]
        why = skel.LAST_WHY
    text = SCAFFOLDS[si].replace("{{", "\x00").replace("}}", "\x01").replace("{h}", h).replace("\x00", "{").replace("\x01", "}")
    r = strsym.untraced(_total, text)
    if r is not None and why is not None:
        why.append(r)
    return r is None


def mut_ok(pi, pos, op, ci, why=None):
    """Mutations of valid programs: delete / insert / replace one character."""
    from vf import skel

    if why is None and skel.EXPLAIN[0]:
        del skel.LAST_WHY[:]
        why = skel.LAST_WHY
    p = PROGRAMS[pi]
    c = ALPH[ci]
    if op == 0:
        text = p[:pos] + p[pos + 1:]
    elif op == 1:
        text = p[:pos] + c + p[pos:]
    else:
        text = p[:pos] + c + p[pos + 1:]
    r = strsym.untraced(_total, text)
    if r is not None and why is not None:
        why.append(r)
    return r is None


def finding_key(ob, rec):
    return "%s" % (rec.get("replay_detail"),)


def spec(tier, seed):
    obs = []
    maxlen = 2
    for si, sc in enumerate(SCAFFOLDS):
        if si == 0:
            # whole input: partition by first character
            obs += strsym.string_box_obs("w", "total_ok(0, {s})", "ALPH", ALPH, maxlen + 1, "whole-input",
                                         "whole input starting with {first}, length <= {n} over {alph!r}")
            if tier == "thorough":
                obs += strsym.string_box_obs("W", "total_ok(0, {s})", "ALPH3", ALPH3, maxlen + 2, "whole-input",
                                             "whole input starting with {first}, length <= {n} over {alph!r}")
            continue
        obs += strsym.string_box_obs("s%d_" % si, "total_ok(%d, {s})" % si, "ALPH", ALPH, maxlen, "scaffold", "scaffold " + repr(sc).replace("{", "{{").replace("}", "}}") + " with hole of length <= {n} over {alph!r}",
                                     fixed_first=False)
        if tier == "thorough":
            # one character more over the structural sub-alphabet (the full alphabet at this length is 74088 texts per scaffold)
            obs += strsym.string_box_obs("S%d_" % si, "total_ok(%d, {s})" % si, "ALPH3", ALPH3, maxlen + 1, "scaffold", "scaffold " + repr(sc).replace("{", "{{").replace("}", "}}") + " with hole of length <= {n} over {alph!r}",
                                         fixed_first=False)
    for pi, p in enumerate(PROGRAMS):
        fn = "m%d" % pi
        L = ["def %s(pos: int, op: int, ci: int) -> bool:" % fn, '    """', "    post: _", '    """',
             "    return mut_ok(%d, _sk.box(pos, 0, %d), _sk.box(op, 0, 2), _sk.box(ci, 0, %d))" % (pi, len(p) - 1, (len(ALPH) - 1) if tier == "thorough" else 11)]
        obs.append(Ob(fn, "\n".join(L), sample="mutations (delete / insert / replace one character at every position) of %r" % p, group="mutation"))
    nd = len(deep_texts())
    L = ["def hdeep(i: int) -> bool:", '    """', "    post: _", '    """', "    return deep_ok(_sk.box(i, 0, %d))" % (nd - 1)]
    obs.append(Ob("hdeep", "\n".join(L), sample="deeply nested / long inputs: %r" % ([t[:40] + ("..." if len(t) > 40 else "") for t in deep_texts()],), group="deep"))
    tw = "\n".join(["def twin0(i0: int) -> bool:", '    """', "    post: _", '    """', "    total_ok(1, _sk.pick_str(ALPH, [i0]))", "    return False"])
    obs.append(Ob("twin0", tw, twin=True, group="twin"))
    return {
        "preamble": PREAMBLE,
        "obligations": obs,
        "level": "model_checking",
        "timeout": 1800.0,
        "path_timeout": 60.0,
        "batch": 2,
        "grade": "R/D (one concrete text per path; reader call untraced, 5 s watchdog per text for the termination clause)",
        "functions_encoded": ["hy.read_many -> hy.reader.hy_reader.HyReader.parse / try_parse_one_form and every reader_for handler", "hy.reader.reader.Reader (getc, peekc, slurp_space, read_ident, chars)",
                              "hy.reader.exceptions"],
        "bounds": "(thorough: additionally whole inputs of length <= 4 and holes of length <= 3 over the structural sub-alphabet " + repr(ALPH3) + ") whole inputs of length 1..%d over the %d-character alphabet %r; %d scaffolds %r with a hole of length 0..%d; single-character delete/insert/replace mutations at every position of "
                  "%d valid programs; %d deeply nested or long inputs (format specs nested 24 deep, f-strings in fields 13 deep, 60 parens, CRLF sources with a late error, ...), each under a 5 s watchdog" % (
                      maxlen + 1, len(ALPH), ALPH, len(SCAFFOLDS) - 1, SCAFFOLDS[1:], maxlen, len(PROGRAMS), len(deep_texts())),
        "outside": "longer texts; characters outside the alphabet (in particular 'every code point'); reader macros defined by the program",
        "stubs": ["reader call executed under crosshair.tracers.NoTracing with a SIGALRM watchdog"],
        "assumptions": ["allowed outcomes: a list of models, LexException or PrematureEndOfInput; anything else (including RecursionError) is a violation"],
    }


MANIFEST = {
    "engine": "A",
    "level": "model_checking",
    "technique": "CrossHair/z3 enumerating bounded text boxes (whole inputs, scaffold holes, program mutations) through folded selectors; real reader classifies each text",
    "text": "Every text in the boxes is read completely by the real reader under a watchdog; the outcome must be models or a Hy reader error.",
    "note": "Grade R/D: exhaustive only inside the stated boxes.",
}
