"""C08: match selects, binds and returns like Python's match statement.

Oracle: the equivalent Python `match` statement, printed by an independent printer from the same pattern
tree and compiled by CPython.  Subjects are symbolic (typed from the pattern set)."""
import itertools

from vf.xh import Ob

PREAMBLE = '''\
import sys, types
from typing import List, Dict, Tuple, Optional
from vf import skel as _sk
from checks.C08 import match_agree, Pt, K
'''


class Pt:
    __match_args__ = ("x", "y")

    def __init__(self, x, y):
        self.x, self.y = x, y

    @property
    def my_y(self):
        return self.y

    def __eq__(self, o):
        return isinstance(o, Pt) and self.x == o.x and self.y == o.y

    def __hash__(self):
        return 0

    def __repr__(self):
        return "Pt(%r, %r)" % (self.x, self.y)


class K:
    a = 1
    b = "s"
    zero = 0


# ------------------------------------------------------------------ patterns

def hy(p):
    t = p[0]
    if t == "lit":
        v = p[1]
        return '"%s"' % v if isinstance(v, str) else repr(v)
    if t == "cap":
        return p[1]
    if t == "wild":
        return "_"
    if t == "val":
        return p[1]
    if t in ("seq", "tup"):
        items = [("#* " + q[1]) if q[0] == "star" else hy(q) for q in p[1]]
        return ("[" + " ".join(items) + "]") if t == "seq" else ("#(" + " ".join(items) + ")")
    if t == "map":
        items = []
        for k, q in p[1]:
            items += [hy(("lit", k)), hy(q)]
        if p[2]:
            items.append("#** " + p[2])
        return "{" + " ".join(items) + "}"
    if t == "cls":
        items = [hy(q) for q in p[2]] + [":%s %s" % (k, hy(q)) for k, q in p[3]]
        return "(" + " ".join([p[1]] + items) + ")"
    if t == "or":
        return "(| " + " ".join(hy(q) for q in p[1]) + ")"
    if t == "as":
        return hy(p[1]) + " :as " + p[2]
    raise ValueError(p)


def py(p):
    t = p[0]
    if t == "lit":
        return repr(p[1])
    if t == "cap":
        return p[1]
    if t == "wild":
        return "_"
    if t == "val":
        return p[1]
    if t in ("seq", "tup"):
        items = [("*" + q[1]) if q[0] == "star" else py(q) for q in p[1]]
        if t == "seq":
            return "[" + ", ".join(items) + "]"
        return "(" + ", ".join(items) + ("," if len(items) == 1 else "") + ")"
    if t == "map":
        items = ["%r: %s" % (k, py(q)) for k, q in p[1]]
        if p[2]:
            items.append("**" + p[2])
        return "{" + ", ".join(items) + "}"
    if t == "cls":
        items = [py(q) for q in p[2]] + ["%s=%s" % (k.replace("-", "_"), py(q)) for k, q in p[3]]
        return "%s(%s)" % (p[1], ", ".join(items))
    if t == "or":
        return "(" + " | ".join(py(q) for q in p[1]) + ")"
    if t == "as":
        return "(%s as %s)" % (py(p[1]), p[2])
    raise ValueError(p)


def captures(p, acc=None):
    acc = [] if acc is None else acc
    t = p[0]
    if t == "cap":
        acc.append(p[1])
    elif t in ("seq", "tup"):
        for q in p[1]:
            if q[0] == "star":
                if q[1] != "_":
                    acc.append(q[1])
            else:
                captures(q, acc)
    elif t == "map":
        for _, q in p[1]:
            captures(q, acc)
        if p[2]:
            acc.append(p[2])
    elif t == "cls":
        for q in p[2]:
            captures(q, acc)
        for _, q in p[3]:
            captures(q, acc)
    elif t == "or":
        captures(p[1][0], acc)
    elif t == "as":
        captures(p[1], acc)
        acc.append(p[2])
    return acc


LEAVES = [("lit", 1), ("lit", 0), ("lit", "k"), ("lit", None), ("lit", True), ("cap", "a"), ("wild",), ("val", "K.a"), ("val", "K.b")]
SUB = [("lit", 1), ("cap", "a"), ("wild",), ("val", "K.zero")]
SUB2 = [("lit", 0), ("cap", "b"), ("wild",)]


def depth1():
    out = list(LEAVES)
    for s1, s2 in itertools.product(SUB, SUB2):
        out.append(("seq", [s1, s2]))
        out.append(("tup", [s1, s2]))
    for s1 in SUB:
        out.append(("seq", [s1]))
        out.append(("seq", [s1, ("star", "rest")]))
        out.append(("seq", [("star", "rest"), s1]))
        out.append(("seq", [s1, ("star", "_"), ("cap", "z")]))
        out.append(("seq", [("cap", "h"), ("star", "rest"), s1]))
        out.append(("map", [("k", s1)], None))
        out.append(("map", [("k", s1)], "rest"))
        out.append(("map", [("k", s1), ("j", ("cap", "b"))], None))
        out.append(("cls", "Pt", [s1], []))
        out.append(("cls", "Pt", [s1, ("cap", "b")], []))
        out.append(("cls", "Pt", [], [("y", s1)]))
        out.append(("cls", "Pt", [s1], [("y", ("cap", "b"))]))
        out.append(("cls", "Pt", [], [("my-y", s1)]))   # keyword attribute names are mangled like any other name
        out.append(("as", s1, "w") if s1[0] != "cap" else ("as", ("wild",), "w"))
    out.append(("seq", []))
    out.append(("map", [], None))
    out.append(("map", [], "rest"))
    out.append(("cls", "Pt", [], []))
    out.append(("cls", "int", [], []))
    out.append(("cls", "int", [("cap", "a")], []))
    out.append(("cls", "str", [], []))
    out.append(("cls", "list", [], []))
    out.append(("or", [("lit", 1), ("lit", 2), ("lit", "k")]))
    out.append(("or", [("seq", [("cap", "a")]), ("tup", [("cap", "a"), ("wild",)]), ("cls", "Pt", [("cap", "a")], [])]))
    out.append(("or", [("lit", None), ("cls", "int", [], [])]))
    out.append(("as", ("or", [("lit", 1), ("lit", 2)]), "w"))
    out.append(("as", ("seq", [("cap", "a"), ("star", "rest")]), "w"))
    return out


def depth2(limit_stride):
    d1 = depth1()
    inner = [p for p in d1 if p[0] in ("seq", "tup", "map", "cls", "or", "as")]
    out = []
    n = 0
    for q in inner:
        for wrap in ("seq1", "seq2", "map", "cls", "or", "as", "tupstar"):
            n += 1
            if n % limit_stride:
                continue
            caps = set(captures(q))
            other = ("cap", "o") if "o" not in caps else ("wild",)
            if wrap == "seq1":
                out.append(("seq", [q]))
            elif wrap == "seq2":
                out.append(("seq", [other, q]))
            elif wrap == "map":
                out.append(("map", [("k", q)], None))
            elif wrap == "cls":
                out.append(("cls", "Pt", [q], []))
            elif wrap == "or":
                if caps:
                    continue  # alternatives must bind the same names
                out.append(("or", [q, ("lit", 7)]))
            elif wrap == "as":
                if "w" in caps or q[0] == "as":
                    continue
                out.append(("as", q, "w"))
            elif wrap == "tupstar":
                if "rest" in caps:
                    continue
                out.append(("tup", [q, ("star", "rest")]))
    return out


# ---------------------------------------------------------------- programs

SUBJECT_TYPES = {
    "int": ("s: int", "s", []),
    "none-bool": ("sel: int", "(None, True, False)[sel]", ["0 <= sel <= 2"]),
    "str": ("sel: int", "('k', 'j', '', 'kk')[sel]", ["0 <= sel <= 3"]),
    "list": ("s: List[int]", "s", ["len(s) <= 3"]),
    "tuple": ("s0: int, s1: int", "(s0, s1)", []),
    "nested": ("s0: List[int], s1: int", "[s1, s0]", ["len(s0) <= 2"]),
    "nested-tuple": ("s0: int, s1: int, s2: int", "((s0, s1), s2)", []),
    "dict": ("ks: int, v0: int, v1: int", "_mkdict(ks, v0, v1)", ["0 <= ks <= 7"]),
    "dict-nested": ("s0: List[int]", "{'k': s0}", ["len(s0) <= 2"]),
    "pt": ("px: int, py: int", "Pt(px, py)", []),
    "pt-nested": ("s0: List[int], py: int", "Pt(s0, py)", ["len(s0) <= 2"]),
}


def subject_types_for(p):
    """Subject types that can reach the pattern (plus one that cannot)."""
    t = p[0]
    if t in ("lit", "val", "cap", "wild"):
        return ["int", "none-bool", "str"]
    if t in ("seq", "tup"):
        nested = any(q[0] in ("seq", "tup", "map", "cls", "or", "as") for q in p[1])
        return (["nested", "nested-tuple", "list"] if nested else ["list", "tuple", "str"])
    if t == "map":
        nested = any(q[0] in ("seq", "tup", "map", "cls", "or", "as") for _, q in p[1])
        return ["dict-nested", "dict"] if nested else ["dict", "list"]
    if t == "cls":
        if p[1] == "Pt":
            nested = any(q[0] in ("seq", "tup", "map", "cls", "or", "as") for q in p[2])
            return ["pt-nested", "pt"] if nested else ["pt", "int"]
        return ["int", "str", "list", "none-bool"]
    if t == "or":
        return ["int", "list", "tuple", "pt", "str", "none-bool"]
    if t == "as":
        return subject_types_for(p[1])
    return ["int"]


def _mkdict(ks, v0, v1):
    d = {}
    if ks & 1:
        d["k"] = v0
    if ks & 2:
        d["j"] = v1
    if ks & 4:
        d["z"] = 5
    return d


GUARDS = [None, ("expr", "(E 50 t)", "E(50, t)"), ("stmt", "(do (E 49 0) (E 50 t))", "[E(49, 0), E(50, t)][1]")]
# guards that are literals (a falsy literal guard must reject the case, not vanish)
LITERAL_GUARDS = [("expr", "0", "0"), ("expr", '""', '""'), ("expr", "[]", "[]"), ("expr", "False", "False"), ("expr", "None", "None"), ("expr", "1", "1"), ("expr", "{}", "{}"),
                  ("expr", "#()", "()"), ("expr", "0.0", "0.0")]
# contexts around the match form (the match result is the value of a setv / sits under a let that binds `_` / inside a comprehension)
CONTEXTS = ["setv-guard", "let-wild", "setv-capture", "in-lfor"]


def program(p, guard, second=True, ctx=None):
    caps = captures(p)
    if ctx == "setv-guard":
        # the statement guard reads the variable that the match result is about to be assigned to: it must see the old value
        guard = ("stmt", "(do (E 49 0) (and (= r 7) (E 50 t)))", "[E(49, 0), (r == 7 and E(50, t))][1]")
    # (setv-capture: the case body must not mention the captured name, else the compiler keeps a separate temporary)
    res_hy = "#(0 " + " ".join(caps if ctx != "setv-capture" else []) + ")"
    res_py = "(0, " + "".join(c + ", " for c in (caps if ctx != "setv-capture" else [])) + ")"
    hy_cases = [hy(p) + ((" :if " + guard[1]) if guard else "") + " " + res_hy]
    py_cases = ["    case %s%s:\n        RESULT = %s" % (py(p), (" if " + guard[2]) if guard else "", res_py)]
    if second:
        hy_cases.append("[c1 c2] :if (E 51 t2) #(1 c1 c2)")
        py_cases.append("    case [c1, c2] if E(51, t2):\n        RESULT = (1, c1, c2)")
        hy_cases.append("_ :as anything #(2 (E 52 0))")
        py_cases.append("    case _ as anything:\n        RESULT = (2, E(52, 0))")
    hytext = "(match (E 40 SUBJ)\n  " + "\n  ".join(hy_cases) + ")"
    pytext = "RESULT = None\nmatch E(40, SUBJ):\n" + "\n".join(py_cases) + "\n"
    if ctx == "setv-guard":
        hytext = "(do (setv r (E 38 7)) (setv r " + hytext + ") r)"
        pytext = "r = E(38, 7)\n" + pytext + "r = RESULT\n"
    elif ctx == "let-wild":
        hytext = "(let [_ (E 38 7)] #(" + hytext + " _))"
        pytext = "u_ = E(38, 7)\n" + pytext + "RESULT = (RESULT, u_)\ndel u_\n"
    elif ctx == "setv-capture":
        c = caps[0]
        hytext = "(do (setv %s %s) %s)" % (c, hytext, c)
        pytext = pytext + "%s = RESULT\n" % c
    elif ctx == "in-lfor":
        hytext = "(lfor i9 [0] " + hytext + ")"
        pytext = "RESULT0 = []\nfor i9 in [0]:\n" + "".join("    " + l + "\n" for l in pytext.splitlines()) + "    RESULT0.append(RESULT)\nRESULT = RESULT0\n"
    return hytext, pytext


def irrefutable(p):
    return p[0] in ("cap", "wild") or (p[0] == "as" and irrefutable(p[1])) or (p[0] == "or" and any(irrefutable(q) for q in p[1]))


def match_agree(prog, pycode, subj, t, t2, why=None, cmp_bind=True):
    from vf import skel
    from vf.envobj import mkE, same

    if why is None and skel.EXPLAIN[0]:
        del skel.LAST_WHY[:]
        why = skel.LAST_WHY
    if prog[0] != "ok":
        if why is not None:
            why.append("Hy rejected: %r" % (prog[1:3],))
        return False
    l1, l2 = [], []
    g1, g2 = {}, {}
    for g, l in ((g1, l1), (g2, l2)):
        g["E"] = mkE(l)
        g["Pt"] = Pt
        g["K"] = K
        g["t"] = t
        g["t2"] = t2
    import copy

    g1["SUBJ"] = subj
    g2["SUBJ"] = copy.copy(subj) if isinstance(subj, (list, dict)) else subj
    try:
        a = ("v", skel.run_code(prog, g1))
    except Exception as e:
        a = ("x", type(e).__name__)
    try:
        import types

        types.FunctionType(pycode, g2)()
        b = ("v", g2["RESULT"])
    except Exception as e:
        b = ("x", type(e).__name__)
    if a[0] != b[0] or (a[0] == "x" and a[1] != b[1]):
        if why is not None:
            why.append("hy %r vs python %r" % (a, b))
        return False
    if a[0] == "v" and not same(a[1], b[1]):
        if why is not None:
            why.append("result hy %r vs python %r" % (a[1], b[1]))
        return False
    if l1 != l2:
        if why is not None:
            why.append("effects hy %r vs python %r" % (l1, l2))
        return False
    if not cmp_bind:
        return True
    # names bound by the match (also by cases whose guard failed, as in Python)
    for name in g2:
        if name in ("E", "Pt", "K", "t", "t2", "SUBJ", "RESULT", "__builtins__"):
            continue
        if name not in g1 or not same(g1[name], g2[name]):
            if why is not None:
                why.append("binding %s: hy %r vs python %r" % (name, g1.get(name, "<unbound>"), g2[name]))
            return False
    for name in g1:
        if name in ("hy", "__builtins__") or name.startswith("_hy_"):
            continue
        if name not in g2:
            if why is not None:
                why.append("hy binds %s, python does not" % name)
            return False
    return True


def spec(tier, seed):
    obs = []
    pats = [(1, p) for p in depth1()] + [(2, p) for p in depth2(3 if tier == "quick" else 1)]
    n = 0
    for depth, p in pats:
        for gi, guard in enumerate(GUARDS):
            if depth == 2 and gi == 1:
                continue
            for sti, st in enumerate(subject_types_for(p)):
                if tier == "quick" and (gi > 0 and sti > 0):
                    continue
                params, subj_expr, pre = SUBJECT_TYPES[st]
                hytext, pytext = program(p, guard, second=not (guard is None and irrefutable(p)))
                fn = "h%d" % n
                n += 1
                L = ["P_%s = _sk.compile_prog(%r)" % (fn, hytext), "X_%s = compile(%r, '<pymatch>', 'exec')" % (fn, pytext),
                     "from checks.C08 import _mkdict",
                     "def %s(%s, t: bool, t2: bool) -> bool:" % (fn, params), '    """']
                L += ["    pre: " + q for q in pre]
                L += ["    post: _", '    """', "    return match_agree(P_%s, X_%s, %s, t, t2)" % (fn, fn, subj_expr)]
                obs.append(Ob(fn, "\n".join(L), sample="subject %s: %s   ==   %s" % (st, hytext.replace("\n", " "), pytext.replace("\n", " ; ")),
                              group="depth%d/%s" % (depth, p[0])))
    # literal guards and contexts, over the depth-1 patterns and the first subject type that can reach each
    extra_cases = []
    for p in depth1():
        st = subject_types_for(p)[0]
        for k, g in enumerate(LITERAL_GUARDS):
            if tier == "quick" and (len(extra_cases) + k) % 3:
                continue
            extra_cases.append((p, g, None, st))
        for ctx in CONTEXTS:
            if ctx == "setv-capture" and not captures(p):
                continue
            if ctx == "let-wild" and "_" not in hy(p).split():
                continue
            extra_cases.append((p, GUARDS[1] if ctx != "setv-guard" else None, ctx, st))
    for p, guard, ctx, st in extra_cases:
        params, subj_expr, pre = SUBJECT_TYPES[st]
        hytext, pytext = program(p, guard, second=(ctx != "setv-capture"), ctx=ctx)
        fn = "h%d" % n
        n += 1
        L = ["P_%s = _sk.compile_prog(%r)" % (fn, hytext), "X_%s = compile(%r, '<pymatch>', 'exec')" % (fn, pytext),
             "from checks.C08 import _mkdict",
             "def %s(%s, t: bool, t2: bool) -> bool:" % (fn, params), '    """']
        L += ["    pre: " + q for q in pre]
        L += ["    post: _", '    """', "    return match_agree(P_%s, X_%s, %s, t, t2, None, %r)" % (fn, fn, subj_expr, ctx != "in-lfor")]
        obs.append(Ob(fn, "\n".join(L), sample="%s subject %s: %s   ==   %s" % (ctx or "literal-guard", st, hytext.replace("\n", " "), pytext.replace("\n", " ; ")),
                      group="context/%s" % (ctx or "literal-guard")))
    tw = "\n".join(["P_twin0 = _sk.compile_prog('(match (E 40 SUBJ) [a 1] #(0 a) _ 2)')",
                    "X_twin0 = compile('RESULT = None\\nmatch E(40, SUBJ):\\n    case [a, 1]:\\n        RESULT = (0, a)\\n    case _:\\n        RESULT = 2\\n', '<py>', 'exec')",
                    "def twin0(s: List[int]) -> bool:", '    """', "    pre: len(s) <= 2", "    post: _", '    """',
                    "    match_agree(P_twin0, X_twin0, s, True, True)", "    return False"])
    obs.append(Ob("twin0", tw, twin=True, group="twin"))
    return {
        "preamble": PREAMBLE,
        "obligations": obs,
        "level": "translation_validation",
        "timeout": 90.0,
        "path_timeout": 30.0,
        "batch": 12,
        "grade": "S",
        "functions_encoded": ["hy.core.result_macros.compile_match_expression, compile_pattern (all ten pattern kinds), guard lifting for statement guards"],
        "bounds": "%d patterns of depth 1 and %s depth-2 patterns (sequence/tuple with #*, mapping with #**, class positional+keyword, | alternatives, :as) over literals, captures, "
                  "wildcard, dotted values; guards {none, expression, statement-producing, literal constants incl. falsy ones}; contexts {plain, result assigned to a variable the statement guard reads, "
                  "result assigned to a captured name, under a let that binds _, inside lfor}; three cases per match (the pattern, a guarded two-element sequence, a wildcard :as); "
                  "subjects symbolic and typed from the pattern: int, None/bool, str pool, List[int] (len<=3), 2-tuples, nested lists/tuples, dicts over keys {k,j,z}, Pt(x,y) with "
                  "symbolic (possibly list-valued) fields" % (len(depth1()), "every 3rd of the" if tier == "quick" else "all"),
        "outside": "pattern depth 3 (property text) beyond the wrappers listed; star patterns in the middle of deeper nestings; user classes other than Pt; float/bytes literals",
        "stubs": ["crosshair.util.getsourcelines wrapper for .hy-defined callees"],
        "assumptions": ["CPython's match statement, fed with text from the independent printer checks/C08.py:py(), is the oracle",
                        "selected case, result, effect order (subject, guards, bodies) and every name bound (including by cases whose guard failed) are compared"],
    }


MANIFEST = {
    "engine": "B",
    "level": "translation_validation",
    "technique": "CrossHair/z3 symbolic subjects: real-compiler output for (match ...) vs CPython's match statement on independently printed text",
    "text": "Each pattern (to the stated depth) with each guard kind is compiled by the real compiler and, independently, printed as a Python match statement; both are run on a solver-chosen "
            "subject of a type derived from the pattern, and must select the same case, bind the same names to the same values, evaluate the same effects and return the same value.",
    "note": "Bounded by the pattern generator. Trusted: CPython match semantics, CrossHair, z3.",
}
