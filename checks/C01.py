"""C01: compiled code means what the Hy program means (Engine B)."""
from vf import gen, skel
from vf.xh import Ob


D2_STRIDE = {"quick": 401, "thorough": 97}


def skeletons(tier):
    out = []
    for name, sk in gen.depth1():
        out.append(("m:" + name, sk))
    for i, (name, sk) in enumerate(gen.depth1(in_fn=True)):
        if (tier == "thorough" and i % 2 == 0) or i % 5 == 0 or "sr" in name:
            out.append(("f:" + name, ("call", ("fn", ("[",), sk))))
    for name, sk in gen.depth2(stride=D2_STRIDE[tier]):
        out.append(("m2:" + name, sk))
    return out


def spec(tier, seed):
    obs = []
    for n, (name, sk) in enumerate(skeletons(tier)):
        fn = "h%d" % n
        # list-index assignment and slicing realise their int operands: boxed (grade R there)
        box = (-2, 2) if "cut" in name else (-3, 4) if "setv-get" in name else None
        src, text = skel.harness_src(fn, sk, sup=False, xs_len=2 if tier == "quick" else 3, int_box=box)
        obs.append(Ob(fn, src, sample=name + "  " + text, group=name.split("[")[0].split("@")[0], timeout=300.0 if "cut" in name else None))
    tw, _ = skel.harness_src("twin0", gen.instantiate(dict(gen.templates())["if"], {0: "pe", 1: "sx", 2: "st"}), twin=True)
    obs.append(Ob("twin0", tw, twin=True, group="twin"))
    return {
        "preamble": skel.PREAMBLE,
        "obligations": obs,
        "level": "translation_validation",
        "timeout": 90.0,
        "path_timeout": 30.0,
        "batch": 24,
        "grade": "S",
        "functions_encoded": [
            "hy.reader.read_many (concrete, harness-generation time)",
            "hy.compiler.hy_compile / HyASTCompiler.compile / Result arithmetic and rename",
            "hy.core.result_macros: compile_do, compile_if, compile_logical_or_and_and_operator, compile_def_expression, "
            "compile_let, compile_function_lambda/def, compile_expression/_compile_collect, compile_maths/compare/augassign, "
            "compile_index/cut, compile_while, compile_comprehension (for, lfor, sfor, dfor, gfor), compile_with, compile_try, "
            "compile_raise, compile_return, compile_assert",
            "hy.core.macros: cond, when, unless",
            "hy.scoping (ScopeLet, ScopeFn, ScopeGen)",
        ],
        "bounds": "%d templates (one or more per listed form); depth 1: each slot x 8 filler kinds {plain name, effectful call, "
                  "setv-statements+name, if-temporary, try/finally-temporary, None-valued statement, inner function, control transfer}, "
                  "other slots effectful; module level and inside (fn []); depth 2 (template in every value slot of every template): %s; "
                  "symbolic: truthiness of every value object, every int, every list (len<=%d)" % (
                      len(gen.templates()), "every %dth of the full product" % D2_STRIDE[tier], 2 if tier == "quick" else 3),
        "outside": "nesting depth beyond 2 templates + fillers (property text: 5-6); async forms; fault injection (see C09); "
                   "floats and non-int operands (see C03)",
        "stubs": ["crosshair.util.getsourcelines wrapper for .hy-defined callees"],
        "assumptions": [
            "oracle = vf/refsem.py written from docs/api.rst and docs/semantics.rst; children of one call/display/operator are unordered "
            "(effect log must be a linear extension of the oracle's series-parallel log tree)",
            "skeleton shapes are enumerated, not solver variables",
        ],
    }


MANIFEST = {
    "engine": "B",
    "level": "translation_validation",
    "technique": "CrossHair/z3 symbolic execution of real-compiler output vs reference interpreter, per bounded-exhaustive skeleton",
    "text": "Every skeleton (form x slot x kind-of-compiler-result filler, at module and function level, plus template-in-template nesting) is compiled by the "
            "real reader and compiler; CrossHair runs the resulting code object and a docs-derived reference interpreter on the same symbolic truth values, "
            "ints and lists and must confirm equal result/exception type, visible bindings and an effect log that is a linear extension of the documented partial order.",
    "note": "Bounded by skeleton depth and list length (evidence.bounds). Trusted: CPython, CrossHair exhaustiveness, z3, vf/refsem.py.",
}
