"""C29: hy.as-model promotes values to models that evaluate back to them (grade D: selector box over concrete pools)."""
from vf import readerlib, strsym
from vf.xh import Ob

PREAMBLE = '''\
import sys
from vf import skel as _sk
from checks.C29 import am_ok, hist_ok
'''


def leaves():
    import hy

    M = hy.models
    return [0, -7, 2 ** 70, 1.5, float("nan"), float("inf"), -0.0, 1j, complex(0, -1.5), "", "a\n\"", "é", b"", b"x\x00", True, False, None, M.Keyword("k"), M.Symbol("s"),
            M.Integer(3), M.String("ms", brackets="q"), M.Expression([M.Symbol("f"), M.Integer(1)]), M.List([]), M.FString([M.String("a"), M.FComponent([M.Symbol("x")], conversion="r")])]


SHAPES = ["leaf", "list", "tuple", "dict", "set", "list-list", "tuple-in-list", "dict-in-list", "list-in-dict", "model-list-with-raw", "model-expr-with-raw", "frozenset?", "nested3"]


def build(shape, a, b):
    import hy

    M = hy.models
    if shape == "leaf":
        return a
    if shape == "list":
        return [a, b]
    if shape == "tuple":
        return (a, b)
    if shape == "dict":
        return {"k": a, 2: b}
    if shape == "set":
        return {a} if _hashable(a) else None
    if shape == "list-list":
        return [[a], [b, [a]]]
    if shape == "tuple-in-list":
        return [(a, b), ()]
    if shape == "dict-in-list":
        return [{"x": a}, {}]
    if shape == "list-in-dict":
        return {"x": [a, b]}
    if shape == "model-list-with-raw":
        return M.List([a, M.Integer(1), b])
    if shape == "model-expr-with-raw":
        return M.Expression([M.Symbol("F"), a, [b]])
    if shape == "frozenset?":
        return None
    if shape == "nested3":
        return {"a": [(a, {"b": [b]})]}


def _hashable(x):
    try:
        hash(x)
        return True
    except TypeError:
        return False


def _veq(a, b):
    """value equality 'up to Python's own equality', nan-aware, bool/int kept apart"""
    import math

    import hy

    if isinstance(a, hy.models.Object) or isinstance(b, hy.models.Object):
        return readerlib.meq(a, b) if isinstance(a, hy.models.Object) and isinstance(b, hy.models.Object) else False
    if isinstance(a, bool) != isinstance(b, bool):
        return False
    if isinstance(a, float) and isinstance(b, float):
        return (math.isnan(a) and math.isnan(b)) or a == b
    if isinstance(a, complex) and isinstance(b, complex):
        return (a == b) or (math.isnan(a.real) and math.isnan(b.real))
    if isinstance(a, (list, tuple)) and type(a) is type(b):
        return len(a) == len(b) and all(_veq(x, y) for x, y in zip(a, b))
    if isinstance(a, dict) and isinstance(b, dict):
        return len(a) == len(b) and all(k in b and _veq(a[k], b[k]) for k in a)
    if isinstance(a, (set, frozenset)) and isinstance(b, (set, frozenset)):
        return len(a) == len(b) and all(any(_veq(x, y) for y in b) for x in a)
    return type(a) is type(b) and a == b


def _all_models(m):
    import hy

    if not isinstance(m, hy.models.Object):
        return False
    if isinstance(m, hy.models.Sequence):
        return all(_all_models(x) for x in m)
    return True


def _am_ok(si, ai, bi):
    import hy

    L = leaves()
    v = build(SHAPES[si], L[ai], L[bi])
    if v is None and SHAPES[si] != "leaf":
        return None
    try:
        m = hy.as_model(v)
    except Exception as e:
        return "as_model(%r) raised %s: %s" % (v, type(e).__name__, str(e)[:80])
    if not _all_models(m):
        return "as_model(%r) = %r is not a tree of models" % (v, m)
    try:
        m2 = hy.as_model(m)
    except Exception as e:
        return "as_model on its own output raised %s" % type(e).__name__
    if not readerlib.meq(m2, m):
        return "as_model is not idempotent on %r: %r then %r" % (v, m, m2)
    has_model_leaf = any(isinstance(x, hy.models.Object) and not isinstance(x, hy.models.Keyword) for x in (L[ai], L[bi])) or isinstance(v, hy.models.Object)
    if not has_model_leaf:
        try:
            back = hy.eval(m, {"F": lambda *a: a})
        except Exception as e:
            return "evaluating as_model(%r) = %r raised %s: %s" % (v, m, type(e).__name__, str(e)[:80])
        if not _veq(back, v):
            return "evaluating as_model(%r) gives %r" % (v, back)
    return None


def am_ok(si, ai, bi, why=None):
    from vf import skel

    if why is None and skel.EXPLAIN[0]:
        del skel.LAST_WHY[:]
        why = skel.LAST_WHY
    r = strsym.untraced(_am_ok, si, ai, bi)
    if r is not None and why is not None:
        why.append(r)
    return r is None


def _hist_ok(kinds):
    """Histories of promotions where any one may be self-referential: it must raise HyWrapperError, and the next must work."""
    import hy
    from hy.errors import HyWrapperError

    for k in kinds:
        if k == 0:
            v = [1, (2, {"k": "s"})]
            want_err = False
        elif k == 1:
            v = [1]
            v.append(v)
            want_err = True
        elif k == 2:
            v = {"a": []}
            v["a"].append(v)
            want_err = True
        elif k == 3:
            a = [1]
            v = (a, [a, a])   # shared, not cyclic: must succeed
            want_err = False
        elif k == 4:
            # a raw list that reaches itself through a model (models are immutable tuples, so the cycle goes through the list)
            raw = [1]
            v = [hy.models.Integer(0), raw]
            raw.append(v)
            want_err = True
            repair = raw.pop
        elif k == 5:
            # the cycle is entered at a tuple with several elements
            v = (1, [], "x")
            v[1].append(v)
            want_err = True
            repair = v[1].pop
        else:
            d = {"k": 2.5}
            v = (d, [d], None)
            d["self"] = v
            want_err = True
            repair = lambda: d.pop("self")
        if k == 1:
            repair = v.pop
        elif k == 2:
            repair = v["a"].pop
        try:
            m = hy.as_model(v)
            if want_err:
                return "as_model of a self-referential %s returned %r" % (type(v).__name__, type(m).__name__)
            if k == 0 and hy.eval(m, {}) != v:
                return "after history %r a normal promotion evaluates to %r" % (kinds, hy.eval(m, {}))
        except HyWrapperError:
            if not want_err:
                return "as_model(%r) raised HyWrapperError in history %r" % (v if not want_err else "cyclic", kinds)
            # break the cycle: the very same objects are finite now and must promote
            repair()
            try:
                m = hy.as_model(v)
                m2 = hy.as_model(m)
            except Exception as e:
                return "after the cycle was broken, as_model of the same objects raised %s: %s (history %r)" % (type(e).__name__, str(e)[:60], kinds)
            if not _veq(hy.eval(m, {}), v if k != 4 else [0, [1]]):
                return "after the cycle was broken the promoted value evaluates to %r, not %r" % (hy.eval(m, {}), v)
        except RecursionError:
            return "as_model of a self-referential structure hit RecursionError"
        except Exception as e:
            return "as_model raised %s in history %r" % (type(e).__name__, kinds)
    return None


def hist_ok(k0, k1, k2, why=None):
    from vf import skel

    if why is None and skel.EXPLAIN[0]:
        del skel.LAST_WHY[:]
        why = skel.LAST_WHY
    r = strsym.untraced(_hist_ok, [k0, k1, k2])
    if r is not None and why is not None:
        why.append(r)
    return r is None


def finding_key(ob, rec):
    return "%s" % (rec.get("replay_detail"),)


def spec(tier, seed):
    nl = len(leaves())
    obs = []
    for si, sh in enumerate(SHAPES):
        fn = "h%d" % si
        L = ["def %s(a: int, b: int) -> bool:" % fn, '    """', "    post: _", '    """', "    return am_ok(%d, _sk.box(a, 0, %d), _sk.box(b, 0, %d))" % (si, nl - 1, (nl - 1) if tier == "thorough" else 5)]
        obs.append(Ob(fn, "\n".join(L), sample="shape %s over pairs of %d leaves" % (sh, nl), group="shapes"))
    L = ["def hhist(k0: int, k1: int, k2: int) -> bool:", '    """', "    post: _", '    """', "    return hist_ok(_sk.box(k0, 0, 6), _sk.box(k1, 0, 6), _sk.box(k2, 0, 6))"]
    obs.append(Ob("hhist", "\n".join(L), sample="histories of 3 promotions over {plain, cyclic list, cyclic dict, shared-not-cyclic, cycle through a nested list, cycle entered at a 3-tuple, cycle tuple-dict}; after each rejected value the cycle is broken and the same objects promoted again", group="histories"))
    tw = "\n".join(["def twin0(a: int) -> bool:", '    """', "    post: _", '    """', "    am_ok(1, _sk.box(a, 0, 3), 0)", "    return False"])
    obs.append(Ob("twin0", tw, twin=True, group="twin"))
    return {
        "preamble": PREAMBLE, "obligations": obs, "level": "exploration", "timeout": 1200.0, "path_timeout": 60.0, "batch": 2,
        "grade": "D (Hy models subclass int/str/tuple; constructing them from solver proxies gives non-reproducing artefacts, so leaves come from a concrete pool)",
        "functions_encoded": ["hy.models.as_model and every _wrappers entry (recursion guard _seen)", "hy.eval of the promoted tree"],
        "bounds": "%d leaves (ints incl. > 2**64, floats incl. nan/inf/-0.0, complex, str/bytes with escapes, bools, None, keywords, existing models incl. bracket strings and f-strings) in %d shapes "
                  "(depth <= 3; lists, tuples, dicts, sets, models containing raw values); histories of 3 promotions, any of which may be self-referential" % (nl, len(SHAPES)),
        "outside": "deeper / larger structures", "stubs": ["calls executed under crosshair.tracers.NoTracing"],
        "assumptions": ["evaluation equality is Python's == with nan==nan and bool distinct from int"],
    }


MANIFEST = {
    "engine": "A", "level": "exploration",
    "technique": "CrossHair/z3 as enumerator of a selector box over concrete leaves and shapes; real hy.as_model / hy.eval compared with the input",
    "text": "Every value in the box is promoted with hy.as_model: the result must be a tree of models, idempotent under as_model, and evaluate back to the value; self-referential structures must "
            "raise HyWrapperError and leave as_model usable. Claimed as exploration (grade D).",
    "note": "Exhaustive only inside the pools.",
}
