"""C06: let bindings are lexically scoped (Engine B; every bound value symbolic)."""
import itertools

from vf import skel
from vf.gen import Ctx
from vf.xh import Ob

KINDS = ["let-a", "let-ab", "let-b-from-a", "fn-param", "fn-free", "defn-call", "setv-then", "lfor", "closure-escape",
         "let-then-read", "let-setv-closure", "let-in-except", "let-unpack", "let-dup", "lfor2", "lfor-setv", "lfor-self"]


def leaf(c, kind):
    if kind == "read":
        return ("#(", ("E", c.sites(), "a"), ("E", c.sites(), "b"))
    if kind == "write":
        return ("do", ("setv", "a", c.leaf("x")), ("#(", ("E", c.sites(), "a"), ("E", c.sites(), "b")))
    if kind == "selfref":
        # the assignment target is read inside a statement-producing value form: it must still hold its old value there
        return ("do", ("setv", "a", ("or", ("E", c.sites(), 0), ("do", ("setv", "q9", "b"), ("F", "a", "q9")))), ("#(", ("E", c.sites(), "a"), ("E", c.sites(), "b")))
    if kind == "closure":
        # a closure that reads a and b, returned and called by the caller after all scopes are left
        return ("fn", ("[",), ("#(", ("E", c.sites(), "a"), ("E", c.sites(), "b")))
    raise ValueError(kind)


def wrap(c, kind, inner, n):
    x = c.leaf("x")
    if kind == "let-a":
        return ("let", ("[", "a", x), inner)
    if kind == "let-ab":
        return ("let", ("[", "a", x, "b", ("+", "a", 1)), inner)
    if kind == "let-b-from-a":
        return ("let", ("[", "b", ("+", "a", x)), inner)
    if kind == "fn-param":
        return ("call", ("fn", ("[", "a"), inner), x)
    if kind == "fn-free":
        return ("call", ("fn", ("[",), inner))
    if kind == "defn-call":
        g = "g%d" % n
        return ("do", ("defn", g, ("[",), inner), (g,))
    if kind == "setv-then":
        return ("do", ("setv", "a", x), inner)
    if kind == "lfor":
        return ("lfor", "a", ("[", x, c.leaf("x")), inner)
    if kind == "closure-escape":
        f = "f%d" % n
        return ("do", ("setv", f, ("let", ("[", "a", x), ("fn", ("[",), inner))), (f,))
    if kind == "let-then-read":
        r = "t%d" % n
        return ("do", ("setv", r, ("let", ("[", "a", x), inner)), ("#(", r, ("E", c.sites(), "a")))
    if kind == "let-setv-closure":
        # setv to a let-bound name updates that binding; the closure sees the value current at call time
        f = "f%d" % n
        r = "r%d" % n
        return ("let", ("[", "a", x), ("setv", f, ("fn", ("[",), ("E", c.sites(), "a"))), ("setv", "a", c.leaf("x")), ("setv", r, (f,)), ("setv", r + "i", inner),
                ("#(", r, r + "i"))
    if kind == "let-in-except":
        return ("try", ("raise", ("E1",)), ("except", ("[", "b", "E1"), ("let", ("[", "a", x), inner)))
    if kind == "let-dup":
        # the same name bound twice in one binding vector: the second binding is a new variable, a closure made in between keeps the first
        f = "d%d" % n
        return ("let", ("[", "a", x, f, ("fn", ("[",), ("E", c.sites(), "a")), "a", ("+", "a", 10)),
                ("setv", f + "u", (f,)), ("setv", f + "v", inner), ("#(", f + "u", f + "v", (f,)))
    if kind == "lfor2":
        # two clauses: the first iteration variable shadows an enclosing let binding of the same name in later clauses and in the body
        return ("lfor", "a", ("[", x, c.leaf("x")), "b", ("[", "a", ("+", "a", 1)), inner)
    if kind == "lfor-setv":
        return ("lfor", "a", ("[", x, c.leaf("x")), (":", "setv"), "b", ("+", "a", 1), inner)
    if kind == "lfor-self":
        # the first iterable is evaluated in the enclosing scope: it reads the enclosing a, not the iteration variable
        return ("lfor", "a", ("[", "a", ("+", "a", x)), inner)
    if kind == "let-unpack":
        return ("let", ("[", ("[", "a", ("unpack-iterable", "b")), ("[", x, c.leaf("x"))), inner)
    raise ValueError(kind)


def build(kinds, leafkind, place):
    c = Ctx()
    inner = leaf(c, leafkind)
    for n, k in enumerate(reversed(kinds)):
        inner = wrap(c, k, inner, n)
    body = ("do", ("setv", "a", c.leaf("x"), "b", c.leaf("x")), ("setv", "res", inner),
            ("#(", ("if", ("callable", "res"), ("res",), "res"), ("E", c.sites(), "a"), ("E", c.sites(), "b")))
    if place == "fn":
        return ("call", ("fn", ("[",), body))
    return body


REBINDS_A = ("let-a", "let-ab", "fn-param", "let-unpack", "closure-escape", "let-setv-closure", "let-then-read", "let-dup")
LFORS = ("lfor", "lfor2", "lfor-setv", "lfor-self")


def allowed(ks, lk):
    """Assigning (setv) to a comprehension's own iteration variable inside its body is not a documented case:
    below an lfor, `a` must be re-bound by a let/fn before it is assigned."""
    under_lfor = False
    first = [i for i, k in enumerate(ks) if k in LFORS]
    if first and "defn-call" in ks[first[0]:]:
        return False  # whether a defn inside a comprehension body is visible outside is not documented (see C04 notes)
    for k in ks:
        if k in LFORS:
            under_lfor = True
        elif k in REBINDS_A:
            under_lfor = False
        elif k == "setv-then" and under_lfor:
            return False
    if lk in ("write", "selfref") and under_lfor:
        return False
    return True


def skeletons(tier):
    out = []
    maxd = 3 if tier == "quick" else 4
    n = 0
    for d in range(1, maxd + 1):
        for ks in itertools.product(KINDS, repeat=d):
            for lk in ("read", "write", "closure", "selfref"):
                n += 1
                if not allowed(ks, lk):
                    continue
                if d == 2 and tier == "quick" and n % 3:
                    continue
                if d == 3 and n % (29 if tier == "quick" else 3):
                    continue
                if d == 4 and n % 61:
                    continue
                for place in ("module", "fn"):
                    if place == "fn" and (n % 2):
                        continue
                    out.append(("%s:%s/%s" % (place, ">".join(ks), lk), build(ks, lk, place)))
    return out


def spec(tier, seed):
    obs = []
    for n, (name, sk) in enumerate(skeletons(tier)):
        fn = "h%d" % n
        src, text = skel.harness_src(fn, sk, sup=False)
        obs.append(Ob(fn, src, sample=name + "  " + text, group="depth%d" % (name.count(">") + 1)))
    tw, _ = skel.harness_src("twin0", build(("let-a", "fn-free"), "read", "module"), twin=True)
    obs.append(Ob("twin0", tw, twin=True, group="twin"))
    return {
        "preamble": skel.PREAMBLE,
        "obligations": obs,
        "level": "translation_validation",
        "timeout": 90.0,
        "path_timeout": 30.0,
        "batch": 16,
        "grade": "S",
        "functions_encoded": [
            "hy.core.result_macros.compile_let, compile_assign(let_scope=...), compile_function_lambda/def, compile_comprehension, compile_try_expression (except variable)",
            "hy.scoping.ScopeLet (add/access/assign/define), ScopeFn.__exit__ propagation, ScopeGen, ResolveOuterVars",
        ],
        "bounds": "nestings of depth 1..%d over %d binding constructs %s and four leaves (read a,b / setv a then read / closure called after all scopes are left / setv a to a statement-producing form that reads a), "
                  "name pool {a, b}; module level and inside (fn []); depth 2 %s, depth 3 sampled (every %s), depth 4 %s; every bound value is a symbolic int, so a reference that "
                  "resolves to the wrong binding differs for some assignment" % (
                      3 if tier == "quick" else 4, len(KINDS), KINDS, "every 3rd" if tier == "quick" else "all", "29th" if tier == "quick" else "3rd",
                      "not run" if tier == "quick" else "every 61st"),
        "outside": "deeper nestings than stated; import/defclass hoisting out of let (documented exceptions); annotations in let",
        "stubs": ["crosshair.util.getsourcelines wrapper for .hy-defined callees"],
        "assumptions": ["oracle = vf/refsem.py: let is removed by an independent source-level alpha-renamer (fresh Python variable in the surrounding Python scope, as documented), "
                        "then Python's own local/global rule (pre-pass over each function body) applies",
                        "module globals after the run are compared too: no let-bound name may appear, same-named outer variables keep their values"],
    }


MANIFEST = {
    "engine": "B",
    "level": "translation_validation",
    "technique": "CrossHair/z3 symbolic execution of real-compiler output vs alpha-renaming reference interpreter, per bounded-exhaustive scope nesting",
    "text": "Every nesting (to the stated depth) of let / fn / defn / setv / lfor / escaping closures over the names a and b is compiled by the real compiler and compared, for all symbolic "
            "bound values, with a reference interpreter that eliminates let by alpha-renaming and then applies Python's scoping rule: each read must see the lexically prescribed binding, "
            "setv must update it, closures must see the binding current at call time, and no let name may leak into or disturb the enclosing namespace.",
    "note": "Bounded by nesting depth and the construct list. Trusted: CPython, CrossHair, z3, vf/refsem.py.",
}
