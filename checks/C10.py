"""C10: compilation yields a valid Python AST or a user-facing Hy error (grade D: the solver enumerates a selector box).

No value dimension exists here: inputs are tree *shapes*.  The harness takes selector integers, decodes them to one
concrete model tree (head = a core macro name, arguments from an atom pool incl. malformed shapes), and compiles it
natively (hy_compile -> compile() -> marshal.dumps).  CrossHair acts as an exhaustive enumerator of the finite selector
box with a 'Confirmed over all paths' certificate; claimed as exploration."""
from vf.xh import Ob

PREAMBLE = '''\
import sys
from vf import skel as _sk
from checks.C10 import tree_ok, tree_ok2, HEADS, POOL
'''

POOL_TEXT = [
    "x", "None", "True", "__debug__", ".", "...", "*", "/", ":k", ":", "1", "\"s\"", "b\"s\"", "[]", "[x]", "[x 1]", "()", "{}", "{1}",
    "#* x", "#** x", "#^ int x", "(else)", "(except [])", "(x)", "[x y z]", "(setv q 1)", "f\"{x}\"", "-1.5", "'x", "`(~x)", "(fn [] x)",
    "(. x y)", "[[x]]", "(finally)", "#(x 1)", "x.y", ".x", "(:k x)", "[#* x]", "(if x 1 2)", "(do)",
]


# forms that produce statements or are unusual as operands: tried in every argument position of every head
SPOOL_TEXT = [
    "(if x (do (f) 1) 2)", "(do)", "[x y]", "f\"{(do)}\"", "\"None\"", "(| 1)", "(lfor x (do) x)", "(try (f) (except [E] 1))",
    "#(x (get y 0))", "(match x 1 2)", "(setv y (do))", "[x #* y]", "(with [a b] c)", "{\"k\" (do)}", "(while x (break))", "(. x [0])", "(quote)", "(fn [x])", "(await x)",
]
SPOOL = None


def heads():
    import builtins

    import hy  # noqa

    hs = sorted(k for k in builtins._hy_macros if not k.startswith("_"))
    return hs


HEADS = None
POOL = None


def _init():
    global HEADS, POOL
    if HEADS is None:
        import hy

        HEADS = heads()
        POOL = [list(hy.read_many(t))[0] for t in POOL_TEXT]
    global SPOOL
    if SPOOL is None:
        import hy

        SPOOL = [list(hy.read_many(t))[0] for t in SPOOL_TEXT]


def pick(seq, i):
    for k in range(len(seq)):
        if i == k:
            return seq[k]
    return seq[0]


def classify(tree):
    """-> (ok, description)"""
    import ast
    import marshal
    import types

    import hy
    from hy.compiler import hy_compile
    from hy.errors import HyLanguageError

    mod = types.ModuleType("vfc10")
    try:
        m = hy_compile(tree, mod, import_stdlib=False)
    except HyLanguageError as e:
        return True, "hy-error"
    except SyntaxError:
        return True, "syntax-error"
    except RecursionError:
        return True, "recursion"
    except Exception as e:
        return False, "compiler raised %s: %s" % (type(e).__name__, str(e)[:120])
    try:
        code = compile(m, "<c10>", "exec")
    except SyntaxError:
        return True, "python-syntax-error"
    except (ValueError, TypeError, SystemError) as e:
        return False, "compile() rejected the AST with %s: %s  [%s]" % (type(e).__name__, str(e)[:100], _unp(m))
    try:
        marshal.dumps(code)
    except Exception as e:
        return False, "marshal failed: %s" % type(e).__name__
    return True, "ok"


def _unp(m):
    import ast

    try:
        return ast.unparse(m)[:100]
    except Exception:
        return "?"


def tree_ok(hi, n, a0, a1, a2, a3=0, why=None):
    import copy

    import hy
    from vf import skel

    _init()
    if why is None and skel.EXPLAIN[0]:
        del skel.LAST_WHY[:]
        why = skel.LAST_WHY
    head = pick(HEADS, hi)
    args = [pick(POOL, a0), pick(POOL, a1), pick(POOL, a2), pick(POOL, a3)]
    k = 0
    for j in range(5):
        if n == j:
            k = j
    items = [hy.models.Symbol(hy.unmangle(head))] + [copy.deepcopy(a) for a in args[:k]]
    tree = hy.models.Expression(items)
    try:
        from crosshair.tracers import NoTracing, is_tracing

        tracing = is_tracing()
    except Exception:
        tracing = False
    if tracing:
        with NoTracing():
            ok, desc = classify(tree)
    else:
        ok, desc = classify(tree)
    if not ok and why is not None:
        why.append("%s -> %s" % (hy.repr(tree), desc))
    return ok


def tree_ok2(hi, mode, a, si, s2, why=None):
    """(head A S) / (head S A) / (head S S') / (head A S T) with S, S' from the statement pool, A from the atom pool, T in {x, 1, (do)}"""
    import copy

    import hy
    from vf import skel

    _init()
    if why is None and skel.EXPLAIN[0]:
        del skel.LAST_WHY[:]
        why = skel.LAST_WHY
    head = pick(HEADS, hi)
    A = pick(POOL, a)
    S = pick(SPOOL, si)
    S2 = pick(SPOOL, s2)
    T = pick([POOL[0], POOL[10], SPOOL[2]], s2)
    args = [A, S]
    if mode == 1:
        args = [S, A]
    elif mode == 2:
        args = [S, S2]
    elif mode == 3:
        args = [A, S, T]
    elif mode == 4:
        args = [S]
    tree = hy.models.Expression([hy.models.Symbol(hy.unmangle(head))] + [copy.deepcopy(x) for x in args])
    from crosshair.tracers import NoTracing, is_tracing

    if is_tracing():
        with NoTracing():
            ok, desc = classify(tree)
    else:
        ok, desc = classify(tree)
    if not ok and why is not None:
        why.append("%s -> %s" % (hy.repr(tree), desc))
    return ok


def finding_key(ob, rec):
    return "%s :: %s" % (ob.sample if ob else rec.get("sample"), rec.get("replay_detail"))


def spec(tier, seed):
    _init()
    obs = []
    npool = 14
    for hi, h in enumerate(HEADS):
        fn = "h%d" % hi
        # selectors are folded into their boxes (no rejected paths); unused argument selectors are not forked on
        L = ["def %s(n: int, a0: int, a1: int, a2: int) -> bool:" % fn, '    """',
             "    post: _", '    """',
             "    k = _sk.box(n, 0, %d)" % (2 if tier == "quick" else 3),
             "    b0 = _sk.box(a0, 0, %d) if k >= 1 else 0" % (npool - 1),
             "    b1 = _sk.box(a1, 0, %d) if k >= 2 else 0" % (npool - 1),
             "    b2 = _sk.box(a2, 0, %d) if k >= 3 else 0" % ((6 if tier == "quick" else 2) - 1),
             "    return tree_ok(%d, k, b0, b1, b2)" % hi]
        obs.append(Ob(fn, "\n".join(L), sample="(%s ARGS...) with 0..%d arguments from the atom pool" % (h, 2 if tier == "quick" else 3), group="head"))
    nsp = 10 if tier == "thorough" else 8
    # quick: A in {x, True} for (h A S), A = x for (h S A) and (h A S T), no (h S S'); thorough: the whole boxes
    for hi, h in enumerate(HEADS):
        fn = "g%d" % hi
        L = ["def %s(mode: int, a: int, s: int, s2: int) -> bool:" % fn, '    """', "    post: _", '    """']
        if tier == "thorough":
            L += ["    m = _sk.box(mode, 0, 4)",
                  "    b = _sk.box(a, 0, 3) if m in (0, 1, 3) else 0",
                  "    c = _sk.box(s, 0, %d)" % (nsp - 1),
                  "    d = (_sk.box(s2, 0, %d) if m == 2 else (_sk.box(s2, 0, 2) if m == 3 else 0))" % (nsp - 1)]
        else:
            L += ["    m = (0, 1, 3, 4)[_sk.box(mode, 0, 3)]",
                  "    b = (0, 2)[_sk.box(a, 0, 1)] if m == 0 else 0",
                  "    c = _sk.box(s, 0, %d)" % (nsp - 1),
                  "    d = _sk.box(s2, 0, 2) if m == 3 else 0"]
        L += ["    return tree_ok2(%d, m, b, c, d)" % hi]
        obs.append(Ob(fn, "\n".join(L), sample="(%s A S) / (%s S A) / (%s S S') / (%s A S T) / (%s S): S, S' from the statement pool %r, A from the atom pool, T in x, 1, (do)" % (
            h, h, h, h, h, SPOOL_TEXT[:nsp]), group="head-stmt", timeout=3000.0 if tier == "thorough" else None))
    tw = "\n".join(["def twin0(n: int, a0: int) -> bool:", '    """', "    post: _", '    """', "    tree_ok(0, _sk.box(n, 0, 1), _sk.box(a0, 0, 2), 0, 0)", "    return False"])
    obs.append(Ob("twin0", tw, twin=True, group="twin"))
    return {
        "preamble": PREAMBLE,
        "obligations": obs,
        "level": "exploration",
        "timeout": 900.0 if tier == "thorough" else 240.0,
        "path_timeout": 60.0,
        "batch": 2,
        "grade": "D (degenerate: the solver only enumerates the selector box; compile step runs under NoTracing)",
        "functions_encoded": ["hy.compiler.hy_compile / HyASTCompiler.compile_expression", "every pattern_macro in hy.core.result_macros and core macro in hy.core.macros (heads read from builtins._hy_macros at run time: %d)" % len(HEADS),
                              "hy.model_patterns", "hy.macros.macroexpand", "CPython compile() and marshal as the validity oracle"],
        "bounds": "head = every core macro (%d); 0..%d arguments, the first two from the first %d atoms of the pool %r, the third from the first %d; plus, per head, the shapes "
                  "(h A S), (h S A), (h S S'), (h A S T), (h S) with S, S' from the %d statement-producing / unusual operands %r (quick tier: the first 8 operands, A in {x, True} resp. x, no (h S S'); thorough tier: the first 10 operands, A from the first 4 atoms, (h S S') included)" % (
            len(HEADS), 2 if tier == "quick" else 3, npool, POOL_TEXT, 6 if tier == "quick" else 2, len(SPOOL_TEXT), SPOOL_TEXT),
        "outside": "deeper nesting (property text: depth 5); more than 3 arguments; atoms outside the pool; reader macros",
        "stubs": ["the compile of each decoded tree runs under crosshair.tracers.NoTracing (nothing symbolic enters it)"],
        "assumptions": ["user-facing = HyLanguageError subclasses and SyntaxError (incl. CPython's own SyntaxError from compile()); RecursionError is not counted"],
        "rule": "one evaluation = one decoded tree (one path of the selector box); non-trivial = a head whose box splits into >= 2 paths",
    }


MANIFEST = {
    "engine": "A",
    "level": "exploration",
    "technique": "CrossHair/z3 as exhaustive enumerator of a selector box decoded to model trees; real compiler + compile() + marshal classify each tree",
    "text": "Inputs are tree shapes, so there is nothing for the solver to reason about: selector integers are decoded to (core-macro-head, arguments from a pool of well- and ill-formed "
            "atoms), the tree is compiled natively, and the outcome must be a valid AST (accepted by compile(), marshallable) or a HyLanguageError/SyntaxError. CrossHair certifies the box "
            "was exhausted. Claimed as exploration (grade D), not as a solver-decided result.",
    "note": "Bounded by the pool and argument count. Trusted: CPython compile()/marshal as validity oracle, CrossHair exhaustiveness.",
}
