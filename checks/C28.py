"""C28: hy.repr output doesn't depend on earlier failed or nested calls (Engine A; the failing printer invocation is symbolic)."""
from vf.xh import Ob

PREAMBLE = '''\
import sys
from vf import skel as _sk
from checks.C28 import hist_ok, setup
setup()
'''


class Boom(Exception):
    pass


class P:
    """An object with a registered printer that calls hy.repr itself and can be told to fail at its j-th invocation."""
    count = [0]
    fail_at = [-1]

    def __init__(self, inner=None):
        self.inner = inner


class Q:
    """Second registered type with a custom placeholder, self-referential."""

    def __init__(self):
        self.me = self


OBJS = []
FRESH = []


def setup():
    import hy
    from hy.core.hy_repr import hy_repr_register

    if OBJS:
        return

    def pprinter(x):
        P.count[0] += 1
        if P.count[0] == P.fail_at[0]:
            raise Boom(P.count[0])
        return "<P " + hy.repr(x.inner) + ">"

    hy_repr_register(P, pprinter)
    hy_repr_register(Q, lambda x: "<Q " + hy.repr(x.me) + ">", "QQ")
    M = hy.models
    cyc = [1]
    cyc.append(cyc)
    pp = P()
    pp.inner = [pp, 2]
    OBJS.extend([
        M.Expression([M.Symbol("a"), M.Integer(1), M.List([M.Keyword("k")])]),
        [1, P(M.Expression([M.Symbol("q")])), {"k": P([P(None), M.Symbol("s")])}],
        M.List([M.Symbol("x"), P(M.Tuple([M.Integer(2), P("t")])), M.Dict([M.String("a"), P(None)])]),
        cyc,
        pp,
        Q(),
        (P(P(P(M.Symbol("deep")))), M.Keyword("kw"), "str", 1.5),
        P({1: M.Expression([M.Symbol("quote"), P(0)])}),
    ])
    for o in OBJS:
        P.count[0] = 0
        P.fail_at[0] = -1
        FRESH.append(hy.repr(o))


def hist_ok(a, b, c, j, why=None):
    import hy
    from vf import skel

    if why is None and skel.EXPLAIN[0]:
        del skel.LAST_WHY[:]
        why = skel.LAST_WHY
    P.count[0] = 0
    P.fail_at[0] = j
    try:
        for idx in (a, b, c):
            try:
                txt = hy.repr(OBJS[idx])
            except Boom:
                continue
            finally:
                pass
            if txt != FRESH[idx]:
                if why is not None:
                    why.append("history %r with the printer failing at its invocation #%d: hy.repr(object %d) = %r, fresh = %r" % ((a, b, c), j, idx, txt, FRESH[idx]))
                return False
        # a plain model after everything: quoting state must be back to normal
        P.fail_at[0] = -1
        t = hy.repr(OBJS[0])
        if t != FRESH[0]:
            if why is not None:
                why.append("after history %r (failure at #%d) a plain model prints %r instead of %r" % ((a, b, c), j, t, FRESH[0]))
            return False
        return True
    finally:
        P.fail_at[0] = -1


def spec(tier, seed):
    setup()
    obs = []
    n = len(OBJS)
    for a in range(n):
        fn = "h%d" % a
        L = ["def %s(b: int, c: int, j: int) -> bool:" % fn, '    """', "    post: _", '    """',
             "    return hist_ok(%d, _sk.box(b, 0, %d), _sk.box(c, 0, %d), _sk.box(j, 0, %d))" % (a, n - 1, 2 if tier == "thorough" else 0, 9 if tier == "thorough" else 7)]
        obs.append(Ob(fn, "\n".join(L), sample="hy.repr history (object %d, any, any) with the registered printer raising at its j-th invocation, j symbolic in 0..9; objects: %r" % (a, FRESH), group="history"))
    tw = "\n".join(["def twin0(j: int) -> bool:", '    """', "    post: _", '    """', "    hist_ok(1, 2, 0, _sk.box(j, 0, 3))", "    return False"])
    obs.append(Ob("twin0", tw, twin=True, group="twin"))
    return {
        "preamble": PREAMBLE,
        "obligations": obs,
        "level": "fault_enumeration",
        "timeout": 3000.0 if tier == "thorough" else 600.0,
        "path_timeout": 60.0,
        "batch": 1,
        "grade": "S for the fault point (the invocation count at which the printer raises is a solver variable; hy.repr itself, Hy-compiled, is traced); objects enumerated by selectors",
        "functions_encoded": ["hy.core.hy_repr.hy-repr (the _quoting / _seen state and its try/finally), hy-repr-register, the registered printers for models and containers"],
        "bounds": "histories of 3 hy.repr calls over %d objects (models, containers holding objects with a registered printer that calls hy.repr itself, models holding such objects, "
                  "self-referential list / registered objects, nested quoting) followed by a plain model; the printer raises at its j-th invocation, j in 0..9 (0 = never)" % n,
        "outside": "longer histories; concurrent calls from threads; printers that mutate the object",
        "stubs": ["crosshair.util.getsourcelines wrapper for .hy-defined callees"],
        "assumptions": ["'fresh interpreter' text = the text computed once at harness import with no failure injected"],
        "rule": "one evaluation = one symbolic path (a class of (history, failing invocation) assignments)",
    }


MANIFEST = {
    "engine": "A",
    "level": "fault_enumeration",
    "technique": "CrossHair/z3 symbolic execution of the real hy.repr with the failing printer invocation as a solver variable, over enumerated call histories",
    "text": "hy.repr (traced) is called three times on objects chosen by selectors while a registered printer raises at a solver-chosen invocation count, possibly inside nested quoting or "
            "cycle detection; every call that succeeds, and a final plain model, must print exactly the text a fresh interpreter gives.",
    "note": "Bounded by the object pool and history length. Trusted: CrossHair, z3.",
}
