"""C07: nonlocal and global reach the binding that scoping prescribes (Engine B)."""
import itertools

from vf import skel
from vf.gen import Ctx
from vf.xh import Ob

LEVEL_KINDS = ("fn", "let", "class")


def build(levels, defs, decl, names=("n",), place="module", second="same"):
    """levels: kinds from outermost to innermost (an innermost function holding the declaration is added);
    defs: tuple, len(levels)+1: is the name defined at module level / at each level (0 | 1; for fn levels also
    'N' = (nonlocal n) then assigned, 'G' = (global n) then assigned);
    decl: 'nonlocal' | 'global' | None;  second: 'same' = a second name is defined wherever the first is,
    'modonly' = the second name is defined at module level only."""
    c = Ctx()
    nm = names[0]

    def reads():
        r = ("try", ("E", c.sites(), nm), ("except", ("[", "NameError"), ("E", c.sites(), ("str", "unbound"))))
        if len(names) > 1:
            return ("#(", r, ("try", ("E", c.sites(), names[1]), ("except", ("[", "NameError"), ("E", c.sites(), ("str", "unbound")))))
        return r

    # innermost function
    body = []
    if decl:
        body.append((decl,) + tuple(names))
    body.append(("setv", nm, c.leaf("x")))
    if len(names) > 1:
        body.append(("setv", names[1], c.leaf("x")))
    body.append(reads())
    inner = [("defn", "inner", ("[",)) + tuple(body), ("setv", "r_inner", ("inner",))]
    forms = inner
    results = ["r_inner"]
    for depth in range(len(levels) - 1, -1, -1):
        kind = levels[depth]
        d = defs[depth + 1]
        rname = "r%d" % depth
        if kind == "fn":
            b = []
            if d in ("N", "G"):
                b.append(({"N": "nonlocal", "G": "global"}[d], nm))
            if d:
                b.append(("setv", nm, c.leaf("x")))
                if len(names) > 1 and second == "same":
                    b.append(("setv", names[1], c.leaf("x")))
            b += forms
            b.append(("#(",) + tuple(results) + (reads(),))
            forms = [("defn", "f%d" % depth, ("[",)) + tuple(b), ("setv", rname, ("f%d" % depth,))]
            results = [rname]
        elif kind == "let":
            binds = ("[", nm, c.leaf("x")) if d else ("[", "zz%d" % depth, 0)
            if d and len(names) > 1 and second == "same":
                binds = binds + (names[1], c.leaf("x"))
            forms = [("setv", rname, ("let", binds) + tuple(forms) + (("#(",) + tuple(results) + (reads(),),))]
            results = [rname]
        else:  # class: its body variables are NOT enclosing bindings for nested functions
            b = []
            if d:
                b.append(("setv", nm, c.leaf("x")))
            b.append(("defn", "m", ("[", "self")) + tuple(forms) + (("#(",) + tuple(results) + (reads(),),))
            forms = [("defclass", "K%d" % depth, ("[",)) + tuple(b),
                     ("setv", rname, ("#(", (".m", ("K%d" % depth,)), ("hasattr", "K%d" % depth, ("str", nm)),
                                      ("if", ("hasattr", "K%d" % depth, ("str", nm)), ("getattr", "K%d" % depth, ("str", nm)), None)))]
            results = [rname]
    top = []
    if defs[0]:
        top.append(("setv", nm, c.leaf("x")))
    if len(names) > 1 and (defs[0] or second == "modonly"):
        top.append(("setv", names[1], c.leaf("x")))
    prog = ("do",) + tuple(top) + tuple(forms) + (("#(",) + tuple(results) + (reads(),),)
    if place == "fn":
        return ("call", ("fn", ("[",), prog))
    return prog


def resolvable(levels, defs, i):
    """Is there a binding that a nonlocal declared in the function at level index i (len(levels) = the innermost
    function) can refer to?  A module-level variable counts (the declaration then means global); class bodies never do.
    -> True | False | None (None: the nearest candidate is a function that declared the name global, and either no
    module-level assignment is visible at compile time or another binding lies further out: not documented, skipped)"""
    for j in range(i - 1, -1, -1):
        k, d = levels[j], defs[j + 1]
        if k == "class" or not d:
            continue
        if d == "G":
            # that function's n is the module variable; if a let/function binding lies further out, which of the
            # two "nearest" means is not documented
            if any(defs[m + 1] and levels[m] != "class" for m in range(j)) or not defs[0]:
                return None
            return True
        return True
    return bool(defs[0])


def skeletons(tier):
    out = []
    maxd = 2 if tier == "quick" else 3
    n = 0
    for d in range(0, maxd + 1):
        for levels in itertools.product(LEVEL_KINDS, repeat=d):
            for defs in itertools.product(*([(0, 1)] + [((0, 1, "N", "G") if k == "fn" else (0, 1)) for k in levels])):
                ok = True
                for i, st in enumerate(defs[1:]):
                    if st == "N" and resolvable(levels, defs, i) is not True:
                        ok = False
                if not ok:
                    continue
                for decl in ("nonlocal", "global", None):
                    if decl == "nonlocal" and resolvable(levels, defs, len(levels)) is not True:
                        continue
                    if "let" in levels and "class" in levels[levels.index("let"):]:
                        continue  # what a class-body assignment to a let-bound name means is not documented
                    n += 1
                    plain = all(st in (0, 1) for st in defs)
                    if d == 2 and tier == "quick" and not plain and n % 2:
                        continue
                    if d == 3 and n % (5 if plain else 23):
                        continue
                    tag = "%s/defs=%s/%s" % (">".join(levels) or "-", "".join(str(int(x)) if x in (0, 1) else x for x in defs), decl)
                    out.append(("module:" + tag, build(levels, defs, decl)))
                    if n % 4 == 0 and "G" not in defs:
                        # (inside a wrapping function the outermost n is a function variable; with a level that
                        # declares n global, whether an inner nonlocal means the module's n or that variable is not documented)
                        out.append(("fn:" + tag, build(levels, defs, decl, place="fn")))
                    if n % 6 == 0 and decl:
                        out.append(("module-2names:" + tag, build(levels, defs, decl, names=("n", "m2"))))
                    if n % 3 == 0 and decl == "nonlocal" and d >= 1 and plain:
                        # one declaration that mixes a name bound in an enclosing function/let with a module-level name
                        out.append(("module-mixed:" + tag, build(levels, defs, decl, names=("n", "m2"), second="modonly")))
    return out


SYNTAX_ERROR_CASES = [
    "(defn f [] (setv n 1) (nonlocal n))",
    "(defn f [] (setv n 1) (global n))",
    "(defn f [] (print n) (global n))",
    "(do (setv n 0) (defn f [] (defn g [] (setv n 1) (nonlocal n)) (g)))",
    "(defn f [] (setv n 0) (defn g [] n (nonlocal n)))",
    "(defn f [] (let [n 1] (defn g [] (setv n 2) (nonlocal n))))",
    "(defn f [] (setv n 0) (defn g [] (for [n [1]] 1) (nonlocal n)))",
    "(defn f [] (setv n 0 m 0) (defn g [] (setv m 1) (nonlocal n m)))",
]


def spec(tier, seed):
    obs = []
    concrete = []
    for n, (name, sk) in enumerate(skeletons(tier)):
        fn = "h%d" % n
        if "class" in name.split("/")[0]:
            # class creation under CrossHair's tracer does not finish its paths (measured: CANNOT_CONFIRM); these
            # nestings are run natively with pairwise distinct values, which is enough to tell bindings apart
            concrete.append((name, sk))
            continue
        src, text = skel.harness_src(fn, sk, sup=False)
        obs.append(Ob(fn, src, sample=name + "  " + text, group="depth%d" % (0 if name.split(":")[1].startswith("-") else name.split("/")[0].count(">") + 1)))
    tw, _ = skel.harness_src("twin0", build(("fn",), (True, True), "nonlocal"), twin=True)
    obs.append(Ob("twin0", tw, twin=True, group="twin"))

    def extra(tier_, seed_, workdir):
        recs = []
        for name, sk in concrete:
            info = skel.scan(sk)
            vals = [("x%d" % i, ("N", 100 + 7 * i)) for i in sorted(info["x"])]
            prog = skel.compile_prog(skel.render(sk))
            why = []
            ok = skel.agree(prog, skel.norm(sk), vals, why=why)
            recs.append({"name": "class:" + name, "verdict": "CONFIRMED" if ok else "POST_FAIL", "reproduces": None if ok else True,
                         "sample": name + "  " + skel.render(sk), "cex": {"args": [v[1][1] for v in vals], "kwargs": {}},
                         "replay_detail": "; ".join(why), "paths": 1, "queries": 0, "solver_s": 0.0, "group": "class-concrete", "twin": False})
        for text in SYNTAX_ERROR_CASES:
            p = skel.compile_prog(text)
            ok = p[0] == "compile-error" and p[1] in ("HySyntaxError", "SyntaxError")
            recs.append({"name": "declared-after-use:" + text, "verdict": "CONFIRMED" if ok else "POST_FAIL", "reproduces": None if ok else True,
                         "sample": text + "  must be a Hy syntax error", "cex": {"args": [], "kwargs": {}},
                         "replay_detail": "got %r" % (p[:3] if p[0] != "ok" else "accepted",), "paths": 1, "queries": 0, "solver_s": 0.0,
                         "group": "declared-after-use", "twin": False})
        return recs

    return {
        "preamble": skel.PREAMBLE,
        "obligations": obs,
        "extra": extra,
        "level": "translation_validation",
        "timeout": 90.0,
        "path_timeout": 30.0,
        "batch": 16,
        "grade": "S",
        "functions_encoded": [
            "hy.core.result_macros.compile_global_or_nonlocal",
            "hy.scoping: OuterVar, ResolveOuterVars, ScopeFn/ScopeLet/ScopeGlobal.define_nonlocal, nearest_python_scope",
        ],
        "bounds": "nestings of depth 0..%d over {fn, let, class} plus the innermost declaring function; the name defined at every subset of levels (module included); "
                  "fn levels may themselves declare the name nonlocal or global before assigning it; innermost declaration nonlocal / global / none, one or two names (second name defined at the same levels, or at module level only); module level and (sampled) inside a function; depth 3 sampled every 5th; every assigned value a symbolic int; "
                  "plus %d declared-after-use programs that must be syntax errors" % (2 if tier == "quick" else 3, len(SYNTAX_ERROR_CASES)),
        "outside": "nestings containing a class level are run natively on pairwise distinct concrete values (grade D, group class-concrete), not symbolically; depth 4; nonlocal inside class bodies or comprehensions; a nonlocal whose nearest candidate is a function that declared the name global while the module never assigns it",
        "stubs": ["crosshair.util.getsourcelines wrapper for .hy-defined callees"],
        "assumptions": ["oracle = vf/refsem.py: let removed by alpha-renaming; nonlocal = nearest enclosing function variable, else the module variable (documented: compiles to global); "
                        "global = module variable; class bodies are not enclosing scopes for nested functions (Python's rule)"],
    }


MANIFEST = {
    "engine": "B",
    "level": "translation_validation",
    "technique": "CrossHair/z3 symbolic execution of real-compiler output vs reference interpreter with explicit scope chain, per bounded-exhaustive nesting",
    "text": "Every nesting of fn/let/class (to the stated depth) with the name defined at every subset of levels and a nonlocal/global/no declaration in the innermost function is compiled by "
            "the real compiler; the value seen at every level after the inner assignment (all assigned values symbolic) must be the one the documented rule prescribes. Declared-after-use "
            "programs must be rejected with a syntax error.",
    "note": "Bounded by nesting depth. Trusted: CPython, CrossHair, z3, vf/refsem.py.",
}
