"""C07: nonlocal and global reach the binding that scoping prescribes (Engine B)."""
import itertools

from vf import skel
from vf.gen import Ctx
from vf.xh import Ob

LEVEL_KINDS = ("fn", "let", "class")


def build(levels, defs, decl, names=("n",), place="module"):
    """levels: kinds from outermost to innermost (an innermost function holding the declaration is added);
    defs: tuple of bools, len(levels)+1: is the name defined at module level / at each level;
    decl: 'nonlocal' | 'global' | None."""
    c = Ctx()
    nm = names[0]

    def reads():
        return ("try", ("E", c.sites(), nm), ("except", ("[", "NameError"), ("E", c.sites(), ("str", "unbound"))))

    # innermost function
    body = []
    if decl:
        body.append((decl,) + tuple(names))
    body.append(("setv", nm, c.leaf("x")))
    if len(names) > 1:
        body.append(("setv", names[1], c.leaf("x")))
    body.append(reads())
    inner = [("defn", "inner", ("[",)) + tuple(body), ("setv", "r_inner", ("inner",))]
    forms = inner
    results = ["r_inner"]
    for depth in range(len(levels) - 1, -1, -1):
        kind = levels[depth]
        d = defs[depth + 1]
        rname = "r%d" % depth
        if kind == "fn":
            b = []
            if d:
                b.append(("setv", nm, c.leaf("x")))
                if len(names) > 1:
                    b.append(("setv", names[1], c.leaf("x")))
            b += forms
            b.append(("#(",) + tuple(results) + (reads(),))
            forms = [("defn", "f%d" % depth, ("[",)) + tuple(b), ("setv", rname, ("f%d" % depth,))]
            results = [rname]
        elif kind == "let":
            binds = ("[", nm, c.leaf("x")) if d else ("[", "zz%d" % depth, 0)
            if d and len(names) > 1:
                binds = binds + (names[1], c.leaf("x"))
            forms = [("setv", rname, ("let", binds) + tuple(forms) + (("#(",) + tuple(results) + (reads(),),))]
            results = [rname]
        else:  # class: its body variables are NOT enclosing bindings for nested functions
            b = []
            if d:
                b.append(("setv", nm, c.leaf("x")))
            b.append(("defn", "m", ("[", "self")) + tuple(forms) + (("#(",) + tuple(results) + (reads(),),))
            forms = [("defclass", "K%d" % depth, ("[",)) + tuple(b),
                     ("setv", rname, ("#(", (".m", ("K%d" % depth,)), ("hasattr", "K%d" % depth, ("str", nm)),
                                      ("if", ("hasattr", "K%d" % depth, ("str", nm)), ("getattr", "K%d" % depth, ("str", nm)), None)))]
            results = [rname]
    top = []
    if defs[0]:
        top.append(("setv", nm, c.leaf("x")))
        if len(names) > 1:
            top.append(("setv", names[1], c.leaf("x")))
    prog = ("do",) + tuple(top) + tuple(forms) + (("#(",) + tuple(results) + (reads(),),)
    if place == "fn":
        return ("call", ("fn", ("[",), prog))
    return prog


def has_binding(levels, defs, decl):
    """Does Python/Hy accept the declaration?  nonlocal needs a binding in an enclosing function or let (a let at module
    level is a module variable), or at module level (then it means global)."""
    if decl != "nonlocal":
        return True
    return any(defs)


def skeletons(tier):
    out = []
    maxd = 2 if tier == "quick" else 3
    n = 0
    for d in range(0, maxd + 1):
        for levels in itertools.product(LEVEL_KINDS, repeat=d):
            for defs in itertools.product((False, True), repeat=d + 1):
                for decl in ("nonlocal", "global", None):
                    if not has_binding(levels, defs, decl):
                        continue
                    # a class level cannot bind for nested scopes: if the only definition is in a class, nonlocal has no binding
                    if decl == "nonlocal" and not any(defs[i + 1] for i, k in enumerate(levels) if k != "class") and not defs[0]:
                        continue
                    if "let" in levels and "class" in levels[levels.index("let"):]:
                        continue  # what a class-body assignment to a let-bound name means is not documented
                    if decl == "nonlocal" and any(defs[i + 1] for i, k in enumerate(levels) if k == "class"):
                        continue  # a class attribute named like the nonlocal name: Python has no rule for it (nonlocal never sees class scope)
                    n += 1
                    if d == 3 and n % 5:
                        continue
                    out.append(("module:%s/defs=%s/%s" % (">".join(levels) or "-", "".join("1" if x else "0" for x in defs), decl), build(levels, defs, decl)))
                    if n % 4 == 0:
                        out.append(("fn:%s/defs=%s/%s" % (">".join(levels) or "-", "".join("1" if x else "0" for x in defs), decl), build(levels, defs, decl, place="fn")))
                    if n % 6 == 0 and decl:
                        out.append(("module-2names:%s/defs=%s/%s" % (">".join(levels) or "-", "".join("1" if x else "0" for x in defs), decl),
                                    build(levels, defs, decl, names=("n", "m2"))))
    return out


SYNTAX_ERROR_CASES = [
    "(defn f [] (setv n 1) (nonlocal n))",
    "(defn f [] (setv n 1) (global n))",
    "(defn f [] (print n) (global n))",
    "(do (setv n 0) (defn f [] (defn g [] (setv n 1) (nonlocal n)) (g)))",
    "(defn f [] (setv n 0) (defn g [] n (nonlocal n)))",
    "(defn f [] (let [n 1] (defn g [] (setv n 2) (nonlocal n))))",
    "(defn f [] (setv n 0) (defn g [] (for [n [1]] 1) (nonlocal n)))",
    "(defn f [] (setv n 0 m 0) (defn g [] (setv m 1) (nonlocal n m)))",
]


def spec(tier, seed):
    obs = []
    concrete = []
    for n, (name, sk) in enumerate(skeletons(tier)):
        fn = "h%d" % n
        if "class" in name.split("/")[0]:
            # class creation under CrossHair's tracer does not finish its paths (measured: CANNOT_CONFIRM); these
            # nestings are run natively with pairwise distinct values, which is enough to tell bindings apart
            concrete.append((name, sk))
            continue
        src, text = skel.harness_src(fn, sk, sup=False)
        obs.append(Ob(fn, src, sample=name + "  " + text, group="depth%d" % (0 if name.split(":")[1].startswith("-") else name.split("/")[0].count(">") + 1)))
    tw, _ = skel.harness_src("twin0", build(("fn",), (True, True), "nonlocal"), twin=True)
    obs.append(Ob("twin0", tw, twin=True, group="twin"))

    def extra(tier_, seed_, workdir):
        recs = []
        for name, sk in concrete:
            info = skel.scan(sk)
            vals = [("x%d" % i, ("N", 100 + 7 * i)) for i in sorted(info["x"])]
            prog = skel.compile_prog(skel.render(sk))
            why = []
            ok = skel.agree(prog, skel.norm(sk), vals, why=why)
            recs.append({"name": "class:" + name, "verdict": "CONFIRMED" if ok else "POST_FAIL", "reproduces": None if ok else True,
                         "sample": name + "  " + skel.render(sk), "cex": {"args": [v[1][1] for v in vals], "kwargs": {}},
                         "replay_detail": "; ".join(why), "paths": 1, "queries": 0, "solver_s": 0.0, "group": "class-concrete", "twin": False})
        for text in SYNTAX_ERROR_CASES:
            p = skel.compile_prog(text)
            ok = p[0] == "compile-error" and p[1] in ("HySyntaxError", "SyntaxError")
            recs.append({"name": "declared-after-use:" + text, "verdict": "CONFIRMED" if ok else "POST_FAIL", "reproduces": None if ok else True,
                         "sample": text + "  must be a Hy syntax error", "cex": {"args": [], "kwargs": {}},
                         "replay_detail": "got %r" % (p[:3] if p[0] != "ok" else "accepted",), "paths": 1, "queries": 0, "solver_s": 0.0,
                         "group": "declared-after-use", "twin": False})
        return recs

    return {
        "preamble": skel.PREAMBLE,
        "obligations": obs,
        "extra": extra,
        "level": "translation_validation",
        "timeout": 90.0,
        "path_timeout": 30.0,
        "batch": 16,
        "grade": "S",
        "functions_encoded": [
            "hy.core.result_macros.compile_global_or_nonlocal",
            "hy.scoping: OuterVar, ResolveOuterVars, ScopeFn/ScopeLet/ScopeGlobal.define_nonlocal, nearest_python_scope",
        ],
        "bounds": "nestings of depth 0..%d over {fn, let, class} plus the innermost declaring function; the name defined at every subset of levels (module included); "
                  "declaration nonlocal / global / none, one or two names; module level and (sampled) inside a function; depth 3 sampled every 5th; every assigned value a symbolic int; "
                  "plus %d declared-after-use programs that must be syntax errors" % (2 if tier == "quick" else 3, len(SYNTAX_ERROR_CASES)),
        "outside": "nestings containing a class level are run natively on pairwise distinct concrete values (grade D, group class-concrete), not symbolically; depth 4; declarations in non-innermost scopes; nonlocal inside class bodies or comprehensions",
        "stubs": ["crosshair.util.getsourcelines wrapper for .hy-defined callees"],
        "assumptions": ["oracle = vf/refsem.py: let removed by alpha-renaming; nonlocal = nearest enclosing function variable, else the module variable (documented: compiles to global); "
                        "global = module variable; class bodies are not enclosing scopes for nested functions (Python's rule)"],
    }


MANIFEST = {
    "engine": "B",
    "level": "translation_validation",
    "technique": "CrossHair/z3 symbolic execution of real-compiler output vs reference interpreter with explicit scope chain, per bounded-exhaustive nesting",
    "text": "Every nesting of fn/let/class (to the stated depth) with the name defined at every subset of levels and a nonlocal/global/no declaration in the innermost function is compiled by "
            "the real compiler; the value seen at every level after the inner assignment (all assigned values symbolic) must be the one the documented rule prescribes. Declared-after-use "
            "programs must be rejected with a syntax error.",
    "note": "Bounded by nesting depth. Trusted: CPython, CrossHair, z3, vf/refsem.py.",
}
