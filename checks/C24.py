"""C24: f-strings evaluate like the equivalent Python f-string (real reader + compiler vs CPython on independently printed text)."""
import itertools

from vf.xh import Ob

PREAMBLE = '''\
import sys, types
from typing import List
from vf import skel as _sk
from checks.C24 import fs_agree
'''

LITS = ["", "a", "{{", "}}", "\\N{BULLET}", " ", "é", "\\n", "\\\\", "'", "%"]
EXPRS = [("x", "x"), ("(+ x 1)", "(x + 1)"), ("(get xs 0)", "xs[0]"), ("s", "s"), ("(.upper s)", "s.upper()"),
         # a nested f-string with its own field: the same text in Hy and Python, so '=' can be compared too
         ("f\"<{s}>\"", "f\"<{s}>\""), ("f\"{x}{s !r}\"", "f\"{x}{s!r}\"")]
SAME_TEXT = ("x", "s", "f\"<{s}>\"")   # expressions whose source text is identical in both languages ('=' prints it)
EMPTY_SPEC = "\0"   # a colon followed by nothing: an empty format spec is not the same as no format spec
CONVS = ["", "!s", "!r", "!a"]
EQS = ["", " =", " = "]
SPECS = ["", EMPTY_SPEC, ">4", "{w}", ">{w}", "0{w}d", "{w}x", "{w}.{p}f", "*^{w}", "{w}{c}"]


def field(expr, conv, eq, spec):
    """-> (hy text, python text) of one replacement field"""
    h, p = expr
    if spec == EMPTY_SPEC:
        hy, py = field(expr, conv, eq, "Q")
        return hy.replace(":Q}", ":}"), py.replace(":Q}", ":}")
    py_eq = " = " if (eq == " =" and (conv or spec)) else eq   # Hy needs whitespace before !conv / :spec, and '=' keeps it in its text
    sp = "" if eq.endswith(" ") else " "   # Hy needs whitespace between the form and !conv / :spec; '=' keeps trailing whitespace in its text
    hy = "{" + h + eq + ((sp + conv) if conv else "") + (((" " if conv or not eq.endswith(" ") else "") + ":" + spec) if spec else "") + "}"
    py = "{" + p + py_eq + conv + ((":" + spec) if spec else "") + "}"
    return hy, py


def cases(tier):
    out = []
    # one field: all combinations
    for expr in EXPRS:
        for conv in CONVS:
            for eq in EQS:
                if eq and expr[0] not in SAME_TEXT:
                    continue  # '=' prints the source text, which differs between Hy and Python for compound expressions
                for spec in SPECS:
                    if (expr[0] in ("s", "(.upper s)") or expr[0].startswith("f\"")) and any(ch in spec for ch in "dxf") and not conv:
                        continue
                    if conv in ("!s", "!r", "!a") and any(ch in spec for ch in "dxf0"):
                        continue  # numeric specs on a converted (string) value: ValueError in both; kept small
                    out.append(([("a", None), field(expr, conv, eq, spec), ("}}", None)], expr))
    # two fields with literals in between
    for lit in LITS:
        f1 = field(EXPRS[0], "!r", "", ">{w}")
        f2 = field(EXPRS[3], "", " = ", "")
        out.append(([(lit, None), f1, (lit, None), f2, (lit, None)], None))
    for (e1, e2) in itertools.product(EXPRS[:3], EXPRS[2:]):
        out.append(([field(e1, "", "", "{w}"), ("-", None), field(e2, "!s", "", "*^{w}")], None))
    return out


def render(parts, bracket=False):
    hy = ""
    py = ""
    for a, b in parts:
        if b is None:
            hy += a
            py += a
        else:
            hy += a
            py += b
    if bracket:
        # bracket f-strings take the text verbatim: no backslash escapes
        return "#[f[" + hy + "]f]", None
    if 'f"' in py:
        return 'f"' + hy + '"', "f\'\'\'" + py + "\'\'\'"   # nested f-string: outer triple quotes leave the inner text untouched
    return 'f"' + hy + '"', 'f"' + py.replace('"', '\\"') + '"'


def fs_agree(prog, pycode, x, w, p, si, ci, why=None):
    from vf import skel, strsym

    if why is None and skel.EXPLAIN[0]:
        del skel.LAST_WHY[:]
        why = skel.LAST_WHY
    # every argument is concrete here (the boxes fork explicitly): evaluate both sides outside CrossHair's tracer, whose
    # own FORMAT_VALUE interception does not reproduce CPython for an empty format spec combined with a conversion
    return strsym.untraced(_fs_agree, prog, pycode, x, w, p, si, ci, why)


def _fs_agree(prog, pycode, x, w, p, si, ci, why):
    from vf import skel

    if prog[0] != "ok":
        if why is not None:
            why.append("rejected: %r" % (prog[1:3],))
        return False
    s = ("ab", "", "é'q", "x y")[si]
    c = ("d", "x", "")[ci]
    g1, g2 = {}, {}
    for g in (g1, g2):
        g["x"] = x
        g["w"] = w
        g["p"] = p
        g["s"] = s
        g["c"] = c
        g["xs"] = [x, 1]
    try:
        a = ("v", skel.run_code(prog, g1))
    except Exception as e:
        a = ("x", type(e).__name__)
    try:
        import types

        b = ("v", types.FunctionType(pycode, g2)())
    except Exception as e:
        b = ("x", type(e).__name__)
    ok = a == b if a[0] == "x" or b[0] == "x" else (a[1] == b[1])
    if not ok and why is not None:
        why.append("hy %r vs python %r" % (a, b))
    return ok


MALFORMED = [
    'f"{x !z}"', 'f"{x !rr}"', 'f"{x !r!s}"', 'f"{}"', 'f"}"', 'f"{x"', 'f"{x !}"', 'f"{x :{w}"', 'f"a}b"', 'f"{ }"', 'f"{x y}"', 'f"{x !r junk}"',
    '#[f[{x !z}]f]', '#[f[{]f]', 'f"{x :{}}"', 'f"\\N{NOT A REAL NAME}"', 'f"{x !R}"',
]


def spec(tier, seed):
    obs = []
    n = 0
    for parts, _ in cases(tier):
        for bracket in (False, True):
            hytext, pytext = render(parts, bracket)
            if bracket:
                if "\\" in hytext or (n % 3):
                    n += 1
                    continue
                _, pytext = render(parts, False)
            fn = "h%d" % n
            n += 1
            import re as _re
            used = set(_re.findall(r"\b(xs|x|w|p|s|c)\b", pytext.replace("\\N{BULLET}", "")))
            sig, pre, args = [], [], []
            for nm, ty, (lo, hi), dflt in (("x", "int", (-2, 11), "3"), ("w", "int", (0, 4), "2"), ("p", "int", (0, 2), "1"),
                                          ("si", "int", (0, 3), "0"), ("ci", "int", (0, 2), "0")):
                key = {"si": "s", "ci": "c"}.get(nm, nm)
                if key in used or (nm == "x" and "xs" in used):
                    sig.append("%s: %s" % (nm, ty))
                    args.append("_sk.box(%s, %d, %d)" % (nm, lo, hi))
                else:
                    args.append(dflt)
            if not sig:
                sig = ["x: int"]
            L = ["P_%s = _sk.compile_prog(%r)" % (fn, hytext), "X_%s = compile(%r, '<pyf>', 'eval')" % (fn, pytext),
                 "def %s(%s) -> bool:" % (fn, ", ".join(sig)), '    """',
                 "    post: _", '    """',
                 "    return fs_agree(P_%s, X_%s, %s)" % (fn, fn, ", ".join(args))]
            # only the variables that occur matter; CrossHair forks on the others lazily
            obs.append(Ob(fn, "\n".join(L), sample="%s   ==   %s" % (hytext, pytext), group="bracket" if bracket else "plain"))
    tw = "\n".join(["P_twin0 = _sk.compile_prog('f\"{x !r :>{w}}\"')", "X_twin0 = compile('f\"{x!r:>{w}}\"', '<pyf>', 'eval')",
                    "def twin0(x: int, w: int) -> bool:", '    """',
                    "    post: _", '    """',
                    "    fs_agree(P_twin0, X_twin0, _sk.box(x, -2, 11), _sk.box(w, 0, 4), 1, 0, 0)", "    return False"])
    obs.append(Ob("twin0", tw, twin=True, group="twin"))

    def extra(tier_, seed_, workdir):
        from vf import skel

        recs = []
        for text in MALFORMED:
            pr = skel.compile_prog(text)
            ok = pr[0] == "compile-error"
            recs.append({"name": "malformed:" + text, "verdict": "CONFIRMED" if ok else "POST_FAIL", "reproduces": None if ok else True,
                         "sample": text + "  must be a Hy syntax error", "cex": {"args": [], "kwargs": {}},
                         "replay_detail": "got %r" % (pr[:3] if pr[0] != "ok" else "accepted",), "paths": 1, "queries": 0, "solver_s": 0.0,
                         "group": "malformed", "twin": False})
        return recs

    return {
        "preamble": PREAMBLE,
        "obligations": obs,
        "extra": extra,
        "level": "translation_validation",
        "timeout": 120.0,
        "path_timeout": 30.0,
        "batch": 12,
        "grade": "R in the values (format() realises its argument: x boxed to -2..11, widths 0..4, precision 0..2, strings from a pool of 4); structure enumerated",
        "functions_encoded": ["hy.reader.hy_reader.HyReader.read_string / fstring parsing (concrete)", "hy.compiler.compile_fstring / compile_fcomponent (conversion, = debugging, nested spec)",
                              "hy.models.FString / FComponent"],
        "bounds": "one field: expression in {name, call, subscript, string name, method call, nested f-string with fields} x conversion {none,!s,!r,!a} x '=' {no, '=', ' = '} (names and the nested f-string) x spec {none, empty (a bare colon), literal, {w}, "
                  ">{w}, 0{w}d, {w}x, {w}.{p}f, *^{w}, {w}{c}}; two fields with every literal chunk of %r between them; plain f\"...\" and (every third) #[f[...]f]; %d malformed "
                  "f-strings that must be syntax errors" % (LITS, len(MALFORMED)),
        "outside": "field expressions beyond the five listed; '=' on compound expressions (prints Hy source text, differs from Python by design); values outside the boxes",
        "stubs": ["both f-strings are evaluated under crosshair.tracers.NoTracing on the concrete values the boxes forked on (CrossHair's FORMAT_VALUE interception differs from CPython "
                  "for an empty format spec with a conversion)"],
        "assumptions": ["CPython's own f-string evaluation on text from the independent printer checks/C24.py:field/render is the oracle"],
    }


MANIFEST = {
    "engine": "B",
    "level": "translation_validation",
    "technique": "CrossHair/z3 over boxed field values and widths: real reader+compiler f-string vs CPython f-string on independently printed text",
    "text": "Each f-string structure is read and compiled by the real pipeline and, independently, printed as a Python f-string; both are evaluated on solver-chosen x, width, precision and "
            "pool selectors and must produce the same string or exception type. Malformed fields and conversions must be Hy syntax errors.",
    "note": "Values are boxed because format() realises its argument (grade R). Trusted: CPython f-strings, CrossHair, z3.",
}
