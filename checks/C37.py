"""C37: reader macros are defined and used in stream order and per module (grade D: enumerated streams)."""
from vf import strsym
from vf.xh import Ob

PREAMBLE = '''\
import sys
from vf import skel as _sk
from checks.C37 import stream_ok, nested_ok, N
'''

RMOD_SRC = '''
(defreader rq (setv x (.parse-one-form &reader)) `(quote [r ~x]))
(defreader rnone None)
'''

RMOD2_SRC = '''
(defreader rq (.parse-one-form &reader) '"B")
'''

# (source stream, expected: value of the whole stream | ("error", class) )
STREAMS = [
    ("(defreader A (.parse-one-form &reader) '\"A\") #A x", "A"),
    ("#A x (defreader A (.parse-one-form &reader) '\"A\")", ("error", "LexException")),
    ("(defreader A (.parse-one-form &reader) 1)\n(defreader B (.parse-one-form &reader) 2)\n[#A x #B y]", [1, 2]),
    ("(defreader A (.parse-one-form &reader) 1) (setv v #A q) (defreader A (.parse-one-form &reader) 2) [v #A q]", [1, 2]),
    ("(defreader N None) [1 #N 2]", [1, 2]),
    ("(defreader N None) #N #N 5", 5),
    ("(defreader N None) (do #N)", None),
    ("(defreader up (setv s (.parse-one-form &reader)) (hy.models.String (.upper (str s)))) #up abc", "ABC"),
    ("(defreader twice (setv f (.parse-one-form &reader)) `(do ~f ~f)) (setv n 0) #twice (+= n 1) n", 2),
    ("(require vfrmod37 :readers [rq]) #rq z", "LIST:r:z"),
    ("(require vfrmod37 :readers *) [#rq z #rnone 1]", "LIST2"),
    ("(require vfrmod37) #rq z", ("error", "LexException")),
    ("(require vfrmod37 :readers [rnone]) #rq z", ("error", "LexException")),
    ("#rq z (require vfrmod37 :readers [rq])", ("error", "LexException")),
    ("(require vfrmod37 :readers [nope])", ("error", "HyRequireError")),
    ("(defn f [] (defreader L (.parse-one-form &reader) 9) 1) (f)", ("error", "HySyntaxError")),
    ("(do (defreader D (.parse-one-form &reader) 7) #D x)", ("error", "LexException")),
    ("(eval-and-compile (defreader E (.parse-one-form &reader) 3)) #E x", 3),
    ("(defreader A (.parse-one-form &reader) 1) (hy.eval (hy.read \"#A x\"))", ("error", "LexException")),
    ("(defreader A (.parse-one-form &reader) 1) (hy.eval (hy.read \"#A x\" :reader (hy.HyReader :use-current-readers True)))", 1),
    # a later definition or require of a name that is already bound replaces it for the following forms
    ("(defreader rq (.parse-one-form &reader) 1) (setv v #rq z) (require vfrmod37b :readers [rq]) [v #rq z]", [1, "B"]),
    ("(require vfrmod37b :readers [rq]) (setv v #rq z) (require vfrmod37 :readers *) [v (len #rq z)]", ["B", 2]),
    ("(require vfrmod37 :readers [rq]) (setv v (len #rq z)) (defreader rq (.parse-one-form &reader) 5) [v #rq z]", [2, 5]),
    # a read that fails at compile time (the stream is compiled as a whole, so only compile-time code runs between its forms) leaves the stream's reader in charge
    ("(eval-and-compile (try (hy.read \"#no-such-tag x\") (except [e Exception] None)))\n(defreader foo (.parse-one-form &reader) 4)\n#foo x", 4),
    ("(defreader A (.parse-one-form &reader) 1)\n(eval-and-compile (try (list (hy.read-many \"(a #zz b)\")) (except [e Exception] None)))\n(defreader B (.parse-one-form &reader) 2)\n[#A x #B y]", [1, 2]),
    ("(eval-when-compile (try (hy.eval (hy.read-many \"(defreader Z 1) #Q x\")) (except [e Exception] None)))\n(defreader foo (.parse-one-form &reader) 4)\n#foo x", 4),
]
N = len(STREAMS)


def _setup():
    import sys
    import types

    import hy

    for nm, src in (("vfrmod37", RMOD_SRC), ("vfrmod37b", RMOD2_SRC)):
        if nm not in sys.modules:
            m = types.ModuleType(nm)
            sys.modules[nm] = m
            hy.eval(hy.read_many(src), m.__dict__, module=m)
            m.hy = hy  # a normally imported Hy module has `hy` bound (implicit import); hy.eval removes it again


def _stream(i):
    import sys
    import types

    import hy

    _setup()
    text, want = STREAMS[i]
    mod = types.ModuleType("vfs37_%d" % i)
    sys.modules[mod.__name__] = mod
    try:
        try:
            got = hy.eval(hy.read_many(text), mod.__dict__, module=mod)
        except Exception as e:
            got = ("error", type(e).__name__)
    finally:
        del sys.modules[mod.__name__]
    # reader macros of this module must not have become visible to an unrelated module or a fresh reader
    other = types.ModuleType("vfs37_other_%d" % i)
    sys.modules[other.__name__] = other
    try:
        try:
            leak = hy.eval(hy.read_many("#A x"), other.__dict__, module=other)
            leaked = True
        except Exception:
            leaked = False
    finally:
        del sys.modules[other.__name__]
    if leaked:
        return "after stream %r an unrelated module can use #A (got %r)" % (text, leak)
    try:
        list(hy.read_many("#A x"))
        return "after stream %r a fresh reader accepts #A" % (text,)
    except Exception:
        pass
    if want == "LIST:r:z":
        ok = not (type(got) is tuple) and list(got) == [hy.models.Symbol("r"), hy.models.Symbol("z")]
    elif want == "LIST2":
        ok = type(got) is list and len(got) == 2 and got[1] == 1
    elif isinstance(want, tuple):
        ok = type(got) is tuple and got[0] == "error" and (got[1] == want[1] or (want[1] == "LexException" and got[1] in ("LexException", "PrematureEndOfInput", "HySyntaxError")))
    else:
        ok = got == want and not (type(got) is tuple)
    if not ok:
        return "stream %r: expected %r, got %r" % (text, want, got)
    return None


def stream_ok(i, why=None):
    from vf import skel

    if why is None and skel.EXPLAIN[0]:
        del skel.LAST_WHY[:]
        why = skel.LAST_WHY
    r = strsym.untraced(_stream, i)
    if r is not None and why is not None:
        why.append(r)
    return r is None


def finding_key(ob, rec):
    return "%s" % (rec.get("replay_detail"),)


# Modules on disk, where compiling one module starts the compilation of another in the middle (require of a module without
# cached bytecode): (files, module to import, expected: value of `got` | ("error", class))
NESTED = [
    ({"inner": "(defreader twice (setv form (.parse-one-form &reader)) `[~form ~form])\n(setv value #twice 21)\n(defmacro noop [] None)\n",
      "outer": "(defreader mine '\"outer\")\n(require {inner} [noop])\n(import {inner})\n(setv got [#mine {inner}.value])\n"}, ["outer", [21, 21]]),
    ({"inner": "(defreader secret '\"leaked\")\n(defmacro noop [] None)\n",
      "outer": "(require {inner} [noop])\n(setv got #secret)\n"}, ("error", "LexException")),
    ({"inner": "(defreader secret '\"wanted\")\n(defmacro noop [] None)\n",
      "outer": "(require {inner} [noop] {inner} :readers [secret])\n(setv got #secret)\n"}, "wanted"),
    ({"inner": "(defreader tag '\"inner\")\n(setv value #tag)\n(defmacro noop [] None)\n",
      "outer": "(defreader tag '\"outer\")\n(setv a #tag)\n(require {inner} [noop])\n(import {inner})\n(setv got [a #tag {inner}.value])\n"}, ["outer", "outer", "inner"]),
]
_NESTED_COUNTER = [0]


def _nested(i):
    import importlib
    import os
    import shutil
    import sys
    import tempfile

    import hy  # noqa

    files, want = NESTED[i]
    _NESTED_COUNTER[0] += 1
    tag = "vfn37_%d_%d_%d" % (os.getpid(), i, _NESTED_COUNTER[0])
    names = {k: "%s_%s" % (tag, k) for k in files}
    d = tempfile.mkdtemp(prefix="vf-c37-")
    try:
        for k, text in files.items():
            with open(os.path.join(d, names[k] + ".hy"), "w") as f:
                f.write(text.replace("{inner}", names.get("inner", "")))
        sys.path.insert(0, d)
        try:
            try:
                m = importlib.import_module(names["outer"])
                got = m.got
            except Exception as e:
                got = ("error", type(e).__name__)
        finally:
            sys.path.remove(d)
            for n in names.values():
                sys.modules.pop(n, None)
    finally:
        shutil.rmtree(d, ignore_errors=True)
    if isinstance(want, tuple):
        ok = type(got) is tuple and got[0] == "error" and got[1] in ("LexException", "HySyntaxError", "PrematureEndOfInput")
    else:
        ok = type(got) is not tuple and got == want
    if not ok:
        return "modules %r: importing the outer one gives %r, expected %r" % (files, got, want)
    return None


def nested_ok(i, why=None):
    from vf import skel

    if why is None and skel.EXPLAIN[0]:
        del skel.LAST_WHY[:]
        why = skel.LAST_WHY
    r = strsym.untraced(_nested, i)
    if r is not None and why is not None:
        why.append(r)
    return r is None


def spec(tier, seed):
    obs = []
    L = ["def hnested(i: int) -> bool:", '    """', "    post: _", '    """', "    return nested_ok(_sk.box(i, 0, %d))" % (len(NESTED) - 1)]
    obs.append(Ob("hnested", "\n".join(L), sample="modules on disk compiled in a nested way: %r" % ([n[0] for n in NESTED],), group="nested-compile"))
    chunk = 5
    for c0 in range(0, N, chunk):
        n = min(chunk, N - c0)
        fn = "s%d" % c0
        L = ["def %s(i: int) -> bool:" % fn, '    """', "    post: _", '    """', "    return stream_ok(%d + _sk.box(i, 0, %d))" % (c0, n - 1)]
        obs.append(Ob(fn, "\n".join(L), sample="streams %r" % ([s[0] for s in STREAMS[c0:c0 + n]],), group="streams"))
    tw = "\n".join(["def twin0(i: int) -> bool:", '    """', "    post: _", '    """', "    stream_ok(_sk.box(i, 0, 2))", "    return False"])
    obs.append(Ob("twin0", tw, twin=True, group="twin"))
    return {
        "preamble": PREAMBLE, "obligations": obs, "level": "exploration", "timeout": 600.0, "path_timeout": 60.0, "batch": 1,
        "grade": "D", "functions_encoded": ["hy.reader.hy_reader.HyReader (dispatch of #name, reader_macros table, using_reader)", "hy.core.macros.defreader", "hy.macros.require_reader / enable_readers",
                                            "hy.reader.read_many laziness (forms are read only after the previous one was evaluated)"],
        "bounds": "%d source streams mixing top-level defreader, uses, redefinition, reader macros returning None, reader macros with side effects on the stream, require :readers with name lists "
                  "and *, use before definition / require, non-top-level definitions, nested evaluation with a fresh or the current reader; after each stream an unrelated module and a fresh "
                  "reader must not see the macros; %d pairs of modules on disk where the compilation of one starts the compilation of the other" % (N, len(NESTED)),
        "outside": "random longer streams over more modules", "stubs": ["runs executed under crosshair.tracers.NoTracing"], "assumptions": ["expected outcomes written by hand from docs/macros.rst"],
    }


MANIFEST = {
    "engine": "A", "level": "exploration",
    "technique": "CrossHair/z3 as enumerator of stream selectors; streams evaluated by the real reader/compiler and compared with hand-written outcomes",
    "text": "Each stream of definitions, uses and requires is evaluated form by form by the real pipeline; a use after its definition works, a use before it is a syntax error, None-returning "
            "reader macros produce no form, and nothing leaks into an unrelated module or a fresh reader. Claimed as exploration (grade D).",
    "note": "Only the listed streams.",
}
