"""C13: compiling the same source is deterministic (Engine N: every set iteration order is a solver choice)."""
import ast

from vf.xh import Ob

PREAMBLE = '''\
import sys, types
from typing import List
from vf import skel as _sk
from checks.C13 import det_agree, baseline
'''

PROGRAMS = [
    "(defn f [] (setv a 1 b 2 c 3) (defn g [] (nonlocal a b c) (setv a 4 b 5 c 6)) (g) [a b c])",
    "(setv G 0) (defn f [] (setv a 1 b 2 c 3) (defn g [] (nonlocal a b c G) (setv a 4 b 5 c 6 G 7)) (g) [a b c])",
    "(setv G 0 H 1) (defn f [] (setv zz 1 aa 2) (defn g [] (nonlocal zz G aa H) (setv zz 4 aa 5 G 6 H 7)) (g) [zz aa])",
    "(defn f [] (let [a 1 b 2 c 3 d 4] (defn g [] (nonlocal d c b a) (setv a 0 b 0 c 0 d 0)) (g) [a b c d]))",
    "(defn f [] (setv a 1) (let [b 2] (defn g [] (setv c 3) (defn h [] (nonlocal a b c) (setv a 0 b 0 c 0)) (h) c) (g)))",
    "(defn f [] (global q w e r) (setv q 1 w 2 e 3 r 4))",
    "(defn f [xs] (lfor x xs :do (setv p x q x r x s x) [p q r s]))",
    "(defn f [xs] (lfor x xs (do (setv p x) (setv q x) (setv r x) (setv s x) (+ p q r s))))",
    "(lfor x [1 2] :do (setv p x q x r x s x t x) [p q r s t])",
    "(defn f [xs] (gfor x xs :setv y x :do (setv p x q y) (setx z (+ p q))))",
    "(defn f [xs] (dfor x xs (do (setv k1 x k2 x) k1) (do (setv v1 x v2 x) v2)))",
    "(defn f [] (try (g) (except [e1 A] e1) (except [e2 B] e2) (except [e3 [C D]] e3)))",
    "(defn f [v] (match v [a b #* rest] [a b rest] {\"k\" x #** others} [x others] (P :y yy :x xx) [xx yy] (| 1 2 3) :as w w))",
    "(defclass K [] (setv a 1 b 2 c 3) (defn m [self] (nonlocal) (setv d 4 e 5)))",
    "(defn f [] (let [a 1] (let [b 2] (let [c 3] (lfor i [a b c] :do (setv u i v i w i) [u v w])))))",
    "(defn f [a b c] (fn [] (fn [] (setv x a y b z c) (defn inner [] (nonlocal x y z) (setv x 1 y 2 z 3)) [x y z])))",
    "(defmacro m [a b c] `(do (setv ~a 1 ~b 2 ~c 3) [~a ~b ~c])) (m p q r) (defn f [] (m s t u))",
    "(require hy.core.macros [when cond]) (defn f [x] (cond (when x 1) 2 True (let [k x] k)))",
    "(defn f [] (setv a 1 b 2) (defn g [] (nonlocal a) (nonlocal b) (setv a 3 b 4) (lfor i [1] :do (setv a i b i) i)) (g))",
    "(defn f [d] (with [a (open d) b (open d) c (open d)] (setv x a y b z c) [x y z]))",
    "(defn f [] (setv a 1 b 2 c 3 d 4 e 5) (defn g [] (nonlocal e d c b a) (del a b c d e)) (g))",
    "(import os sys [path argv] collections :as co) (defn f [] (global os sys path argv co) (setv os 1 sys 2 path 3 argv 4 co 5))",
    "(defn :async f [xs] (lfor :async x xs :do (setv p x q x r x) [p q r]))",
    "(defn f [] (setv a 1 b 2 c 3) (defclass K [] (defn m [self] (nonlocal c a b) (setv a 0 b 0 c 0))) K)",
    # local requires of the * / :as / bare form list every macro name in the emitted code
    "(defn f [] (require hy.core.macros *) (when 1 2))",
    "(defn f [] (require hy.core.macros :as cm) (let [a 1] (require hy.core.macros) a))",
]
# programs also compiled under real PYTHONHASHSEED values: sets that are not created through the name `set` (set operators on
# dict views, C-level constructors) are invisible to the NDSet stub
REAL_SEEDS_ALWAYS = [len(PROGRAMS) - 2, len(PROGRAMS) - 1, 6, 8]


def compile_dump(text):
    import types

    import hy
    from hy.compiler import hy_compile
    from hy.reader import read_many

    mod = types.ModuleType("vfdet")
    tree = hy_compile(read_many(text), mod, source=text)
    return ast.dump(tree)


_BASE = {}


def baseline(text):
    """Compiled once at harness import with canonical (sorted) set order."""
    from vf import ndset

    undo = ndset.install()
    try:
        ndset.start([])
        return compile_dump(text)
    finally:
        undo()


def det_agree(text, base, ch, why=None):
    from vf import ndset, skel

    if why is None and skel.EXPLAIN[0]:
        del skel.LAST_WHY[:]
        why = skel.LAST_WHY
    undo = ndset.install()
    try:
        ndset.start(ch)
        try:
            d = compile_dump(text)
        except Exception as e:
            d = "EXC " + type(e).__name__
    finally:
        undo()
    ok = d == base
    if not ok and why is not None:
        why.append("set order %r changes the compiled AST" % (list(ch),))
        import difflib

        for line in difflib.unified_diff(base.split(", "), d.split(", "), lineterm="", n=0):
            if line.startswith(("+", "-")) and not line.startswith(("+++", "---")):
                why.append(line[:160])
                if len(why) > 6:
                    break
    return ok


def seeds_confirm(text, tries=24):
    """Replay side: does a real PYTHONHASHSEED pair produce different ASTs / bytecode?"""
    import hashlib
    import subprocess
    import sys

    code = ("import sys,ast,types,marshal,hashlib;import hy;from hy.compiler import hy_compile;from hy.reader import read_many;"
            "t=sys.argv[1];m=hy_compile(read_many(t),types.ModuleType('x'),source=t);"
            "print(hashlib.sha1(ast.dump(m).encode()).hexdigest(), hashlib.sha1(marshal.dumps(compile(m,'x','exec'))).hexdigest())")
    seen = {}
    import os

    for s in range(tries):
        env = dict(os.environ)
        env["PYTHONHASHSEED"] = str(s)
        r = subprocess.run([sys.executable, "-c", code, text], capture_output=True, text=True, env=env)
        seen.setdefault(r.stdout.strip(), []).append(s)
    return seen


def spec(tier, seed):
    from vf import ndset

    obs = []
    progs = list(PROGRAMS)
    for n, text in enumerate(progs):
        fn = "h%d" % n
        L = ["T_%s = %r" % (fn, text), "B_%s = baseline(T_%s)" % (fn, fn),
             "def %s(ch: List[int]) -> bool:" % fn, '    """',
             "    pre: len(ch) <= %d and all(0 <= c <= %d for c in ch)" % ((2, 3) if tier == "quick" else (3, 3)),
             "    post: _", '    """', "    return det_agree(T_%s, B_%s, ch)" % (fn, fn)]
        obs.append(Ob(fn, "\n".join(L), sample=text, group="programs"))
    tw = "\n".join(["T_twin0 = %r" % progs[0], "B_twin0 = baseline(T_twin0)", "def twin0(ch: List[int]) -> bool:", '    """', "    pre: len(ch) <= 2 and all(0 <= c <= 2 for c in ch)",
                    "    post: _", '    """', "    det_agree(T_twin0, B_twin0, ch)", "    return False"])
    obs.append(Ob("twin0", tw, twin=True, group="twin"))

    def extra(tier_, seed_, workdir):
        recs = []
        aud = ndset.audit()
        recs.append({"name": "audit", "verdict": "CONFIRMED", "sample": "set displays / comprehensions not reachable by rebinding the name `set` in %s: %r" % (ndset.MODULES, aud),
                     "paths": 1, "queries": 0, "solver_s": 0.0, "group": "audit", "twin": False})
        # real hash seeds on a few programs (replay-side evidence; not the deciding step)
        chosen = list(range(3 if tier_ == "quick" else 8)) + [i for i in REAL_SEEDS_ALWAYS if i >= (3 if tier_ == "quick" else 8)]
        for text in [progs[i] for i in chosen]:
            seen = seeds_confirm(text, 6 if tier_ == "quick" else 24)
            ok = len(seen) == 1
            recs.append({"name": "hashseeds:" + text[:40], "verdict": "CONFIRMED" if ok else "POST_FAIL", "reproduces": None if ok else True,
                         "sample": "PYTHONHASHSEED 0..%d: %s" % ((6 if tier_ == "quick" else 24) - 1, text), "cex": {"args": [], "kwargs": {}},
                         "replay_detail": "distinct (ast, bytecode) digests by seed: %r" % (seen,), "paths": 6, "queries": 0, "solver_s": 0.0,
                         "group": "hashseeds", "twin": False, "nontrivial": True})
        return recs

    return {
        "preamble": PREAMBLE,
        "obligations": obs,
        "extra": extra,
        "level": "model_checking",
        "timeout": 900.0 if tier == "thorough" else 400.0,
        "path_timeout": 60.0,
        "batch": 2,
        "grade": "S (set iteration orders are solver variables; programs enumerated)",
        "functions_encoded": ["hy.compiler.hy_compile and everything it calls (traced): hy.scoping (ResolveOuterVars, ScopeFn/ScopeLet/ScopeGen sets), hy.core.result_macros, hy.macros, "
                              "hy.model_patterns, hy.reader (parsing of the program text)"],
        "bounds": "%d programs heavy in nonlocal/global (1-5 names), let, comprehensions with leaked names, except clauses, match, defclass, macros, imports; every `set`/`frozenset` "
                  "created by name in %s iterates in an order chosen by the first %d solver integers (each 0..%d; later iterations use the canonical order)"
                  % (len(progs), ndset.MODULES, 2 if tier == "quick" else 3, 3),
        "outside": "sets not created through the names set/frozenset (set operators on dict views etc.) are only seen by the real-hash-seed runs on 7 programs; orders that need more choice points than stated; dict ordering (insertion-ordered, deterministic); sets created by set displays/comprehensions listed by the audit; "
                   "id()-dependent ordering",
        "stubs": ["set/frozenset names rebound in the compile-path modules (vf/ndset.py)", "crosshair.util.getsourcelines wrapper"],
        "assumptions": ["over-approximation: every iteration order of a set is assumed realisable by some hash seed; a reported order is a violation only when the harness replays it natively "
                        "(same NDSet order, no CrossHair) and the AST differs; real PYTHONHASHSEED runs are reported as supporting evidence"],
        "traces_validated": 3,
    }


MANIFEST = {
    "engine": "N",
    "level": "model_checking",
    "technique": "CrossHair/z3 over set iteration orders: the real compiler runs with every set's order chosen by solver integers; AST must not depend on them",
    "text": "For each program the real compiler is executed under CrossHair with `set`/`frozenset` in its modules replaced by subclasses that iterate in a solver-chosen order; the dumped AST must "
            "equal the canonical-order AST for every choice sequence within the bound. This over-approximates 'for every PYTHONHASHSEED'; counterexamples are replayed natively.",
    "note": "Bounded by the program list and the number of choice points. Trusted: CrossHair, z3; assumption that rebinding the names reaches every set on the compile path (audited).",
}
