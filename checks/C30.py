"""C30: quote reproduces its argument model exactly (grade D)."""
from vf import readerlib, strsym
from vf.xh import Ob

PREAMBLE = '''\
import sys
from vf import skel as _sk
from checks.C30 import q_ok
'''


def atoms():
    import hy

    M = hy.models
    fs = M.FString([M.String("a"), M.FComponent([M.Symbol("x"), M.String(">4")], conversion="r"), M.String("b")])
    fsb = M.FString([M.FComponent([M.Expression([M.Symbol("+"), M.Integer(1), M.Integer(2)])], conversion=None)], brackets="f-x")
    return [M.Symbol("a"), M.Symbol("None"), M.Symbol("True"), M.Symbol("."), M.Symbol("..."), M.Symbol("quote"), M.Symbol("unquote"), M.Keyword("k"), M.Keyword(""), M.Integer(0),
            M.Integer(-(2 ** 70)), M.Float(1.5), M.Float(float("nan")), M.Float(float("-inf")), M.Float(-0.0), M.Complex(2j), M.String(""), M.String("s\n\"", brackets=None),
            M.String("b s", brackets=""), M.String("x", brackets="del"), M.Bytes(b"\x00q"), fs, fsb, M.Expression([]), M.List([]), M.Tuple([]), M.Dict([]), M.Set([]),
            M.FComponent([M.Symbol("y")], conversion="a"), M.FString([]), M.FString([M.String("{}")]),
            # every attribute combination: conversion with and without the source text, empty-string delimiters, models as read
            M.FComponent([M.Symbol("p")], conversion="r", expression="p"), M.FComponent([M.Symbol("p"), M.String("x")], conversion=None, expression=" p "),
            M.FString([M.String("q")], brackets=""), M.FString([M.FComponent([M.Symbol("z")], conversion="s", expression="z")], brackets="f"),
            hy.read('f"a{p !r}b"'), hy.read('f"{ foo = }"'), hy.read('f"{x = !s :>{w}}"'), hy.read("#[f-x[{y !a} ]]f-x]"), hy.read('#[[pl ain]]'), hy.read('b"by"')]


KINDS = ["atom", "expr", "list", "tuple", "dict", "set", "expr-in-list", "quote-form", "unquote-form", "deep"]


def build(kind, a, b):
    import hy

    M = hy.models
    if kind == "atom":
        return a
    if kind == "expr":
        return M.Expression([a, b])
    if kind == "list":
        return M.List([a, b, a])
    if kind == "tuple":
        return M.Tuple([a])
    if kind == "dict":
        return M.Dict([a, b])
    if kind == "set":
        return M.Set([a, b])
    if kind == "expr-in-list":
        return M.List([M.Expression([M.Symbol("f"), a]), M.Dict([M.Keyword("k"), M.Tuple([b])])])
    if kind == "quote-form":
        return M.Expression([M.Symbol("quote"), a])
    if kind == "unquote-form":
        return M.Expression([M.Symbol("unquote"), M.Expression([M.Symbol("unquote-splice"), a])])
    return M.Expression([M.List([M.Tuple([M.Dict([a, M.Set([b])])])])])


def _attrs(a, b):
    import hy

    if type(a) is not type(b):
        return "type %s vs %s" % (type(a).__name__, type(b).__name__)
    for nm in ("brackets", "conversion", "expression", "is_tstring"):
        if getattr(a, nm, None) != getattr(b, nm, None):
            return "%s: %r vs %r on %r" % (nm, getattr(a, nm, None), getattr(b, nm, None), a)
    if isinstance(a, hy.models.Sequence):
        if len(a) != len(b):
            return "length"
        for x, y in zip(a, b):
            d = _attrs(x, y)
            if d:
                return d
    return None


def _q_ok(ki, ai, bi):
    import math

    import hy

    A = atoms()
    m = build(KINDS[ki], A[ai], A[bi])
    q = hy.models.Expression([hy.models.Symbol("quote"), m])
    try:
        r = hy.eval(q, {})
    except Exception as e:
        return "evaluating (quote %s) raised %s: %s" % (hy.repr(m), type(e).__name__, str(e)[:80])
    if not readerlib.meq(r, m):
        return "(quote %s) evaluates to %r" % (hy.repr(m), r)
    d = _attrs(m, r)
    if d:
        return "(quote %s): %s" % (hy.repr(m), d)
    return None


def q_ok(ki, ai, bi, why=None):
    from vf import skel

    if why is None and skel.EXPLAIN[0]:
        del skel.LAST_WHY[:]
        why = skel.LAST_WHY
    r = strsym.untraced(_q_ok, ki, ai, bi)
    if r is not None and why is not None:
        why.append(r)
    return r is None


def finding_key(ob, rec):
    return "%s" % (rec.get("replay_detail"),)


def spec(tier, seed):
    na = len(atoms())
    obs = []
    for ki, k in enumerate(KINDS):
        fn = "h%d" % ki
        L = ["def %s(a: int, b: int) -> bool:" % fn, '    """', "    post: _", '    """', "    return q_ok(%d, _sk.box(a, 0, %d), _sk.box(b, 0, %d))" % (ki, na - 1, (na - 1) if tier == "thorough" else 6)]
        obs.append(Ob(fn, "\n".join(L), sample="shape %s over pairs of %d atom models" % (k, na), group="shapes"))
    tw = "\n".join(["def twin0(a: int) -> bool:", '    """', "    post: _", '    """', "    q_ok(1, _sk.box(a, 0, 3), 0)", "    return False"])
    obs.append(Ob("twin0", tw, twin=True, group="twin"))
    return {
        "preamble": PREAMBLE, "obligations": obs, "level": "exploration", "timeout": 1200.0, "path_timeout": 60.0, "batch": 2,
        "grade": "D (no value dimension: model shapes from a selector box)",
        "functions_encoded": ["hy.core.result_macros.compile_quote / render_quoted_form", "model constructors as called by the emitted code (from_parser, brackets, conversion, expression, is_tstring)"],
        "bounds": "%d atom models (special-looking symbols None/True/./.../quote/unquote, keywords incl. empty, numbers incl. nan/-inf/-0.0/huge, strings with and without brackets, bytes, "
                  "FString/FComponent with conversion, format spec and bracket delimiters, every empty sequence kind) in %d shapes (depth <= 4)" % (na, len(KINDS)),
        "outside": "deeper trees; models built from reader output are covered by C25",
        "stubs": ["calls executed under crosshair.tracers.NoTracing"], "assumptions": ["node-by-node comparison of type, value and the attributes brackets/conversion/expression/is_tstring"],
    }


MANIFEST = {
    "engine": "A", "level": "exploration",
    "technique": "CrossHair/z3 as enumerator of a selector box of model shapes; (quote m) compiled and evaluated by the real pipeline and compared node by node",
    "text": "For every model in the box, hy.eval of (quote m) must return a model equal to m with the same type and extra attributes at every node. Claimed as exploration (grade D).",
    "note": "Exhaustive only inside the pools.",
}
