"""C09: try/except/else/finally and with at every raise point (Engine B,
fault sites symbolic)."""
import itertools

from vf import skel
from vf.gen import Ctx
from vf.xh import Ob


def val(c, kind):
    """A value-producing form of the given kind using fresh sites."""
    if kind == "pe":
        return ("E", c.sites(), c.leaf("v"))
    if kind == "sx":
        q = c.qname()
        return ("do", ("setv", q, ("E", c.sites(), c.leaf("v"))), q)
    if kind == "two":
        return None
    raise ValueError(kind)


HANDLER_SETS = [
    (),
    (("t", "E1"),),
    (("n", "E1"),),
    (("tt", ("E1", "E3")),),
    (("any",),),
    (("t", "E2"), ("any",)),
    (("t", "E3"), ("n", "E1")),
    (("nt", ("E3", "E2")),),
    (("none",),),
]


def handler(c, h, kind):
    if h[0] == "t":
        spec = ("[", h[1])
    elif h[0] == "n":
        spec = ("[", "e", h[1])
    elif h[0] == "tt":
        spec = ("[", ("[",) + tuple(h[1]))
    elif h[0] == "nt":
        spec = ("[", "e", ("[",) + tuple(h[1]))
    elif h[0] == "any":
        spec = ("[",)
    elif h[0] == "none":
        spec = ("[", ("[",))
    body = [val(c, kind)]
    if h[0] in ("n", "nt"):
        # use the bound exception inside the handler
        body.insert(0, ("E", c.sites(), "e"))
    return ("except", spec) + tuple(body)


def try_form(c, bkind, hs, els, fin, hkind="pe", inner=None):
    parts = ["try"]
    if inner is not None and inner[0] == "body":
        parts.append(inner[1](c))
    parts.append(val(c, bkind))
    for h in hs:
        hd = handler(c, h, hkind)
        if inner is not None and inner[0] == "handler":
            hd = hd[:2] + (inner[1](c),) + hd[2:]
        parts.append(hd)
    if els:
        parts.append(("else", val(c, els)))
    if fin:
        f = [val(c, fin)]
        if inner is not None and inner[0] == "finally":
            f.insert(0, inner[1](c))
        parts.append(("finally",) + tuple(f))
    return tuple(parts)


def manager(c, mkind):
    """A context-manager expression: plain call, or a statement-producing form
    with an effect of its own (it must still run exactly once)."""
    if mkind == "plain":
        return ("CM", c.sites(2), c.leaf("v"))
    if mkind == "sx":
        q = c.qname()
        s = c.sites()
        return ("do", ("setv", q, ("E", s, c.leaf("v"))), ("CM", c.sites(2), q))
    if mkind == "try":
        s = c.sites()
        return ("try", ("E", s, ("CM", c.sites(2), c.leaf("v"))), ("finally", ("E", c.sites())))
    raise ValueError(mkind)


def with_form(c, nman, named, bkind, inner=None, mkinds=None):
    m = ["["]
    mkinds = mkinds or ["plain"] * nman
    if nman == 1 and not named:
        m.append(manager(c, mkinds[0]))
    else:
        for i in range(nman):
            m.append(("c%d" % i) if named else "_")
            m.append(manager(c, mkinds[i]))
    body = []
    if inner is not None:
        body.append(inner(c))
    body.append(val(c, bkind))
    if named:
        body.append(("#(", "c0", body.pop()))
    return ("with", tuple(m)) + tuple(body)


def skeletons(tier):
    out = []
    # --- single try forms
    for bkind in ("pe", "sx"):
        for hs in HANDLER_SETS:
            for els in (None, "pe"):
                for fin in (None, "pe", "sx"):
                    if not hs and not fin:
                        continue
                    if els and not hs:
                        continue
                    for hkind in (("pe", "sx") if hs and tier == "thorough" else ("pe",)):
                        c = Ctx()
                        sk = try_form(c, bkind, hs, els, fin, hkind)
                        out.append(("try", sk))
    # --- except variable vs same-named outer variable
    for hs in ((("n", "E1"),), (("nt", ("E3", "E2")),), (("t", "E3"), ("n", "E1"))):
        c = Ctx()
        sk = ("do", ("setv", "e", "x0"), try_form(c, "pe", hs, "pe", "pe"), ("#(", "e",))
        out.append(("try-outer-e", sk))
        c = Ctx()
        sk = ("call", ("fn", ("[",), ("setv", "e", "x0"), try_form(c, "pe", hs, None, None), ("#(", "e",)))
        out.append(("try-outer-e-fn", sk))
        c = Ctx()
        sk = ("let", ("[", "e", "x0"), try_form(c, "pe", hs, None, "pe"), ("#(", "e",))
        out.append(("try-outer-e-let", sk))
    # --- a handler that reads an OUTER variable named like an earlier handler's except variable
    for hs1, hs2 in (((("n", "E1"),), "E3"), ((("nt", ("E1", "E2")),), "E3"), ((("n", "E3"),), "E1")):
        for place in ("module", "fn", "let"):
            c = Ctx()
            t = ["try", val(c, "pe"), handler(c, hs1[0], "pe"),
                 ("except", ("[", hs2), ("E", c.sites(), "e")), ("finally", val(c, "pe"))]
            body = (tuple(t), ("#(", "e"))
            if place == "module":
                sk = ("do", ("setv", "e", "x0")) + body
            elif place == "fn":
                sk = ("call", ("fn", ("[",), ("setv", "e", "x0")) + body)
            else:
                sk = ("let", ("[", "e", "x0")) + body
            out.append(("try-outer-e-later-handler-" + place, sk))
    # --- statement-producing manager expressions (each must run exactly once)
    for nman in (1, 2, 3):
        import itertools as _it

        for mk in _it.product(("plain", "sx", "try"), repeat=nman):
            if all(k == "plain" for k in mk):
                continue
            if nman == 3 and (tier == "quick" and mk.count("plain") < 2):
                continue
            for named in ((False, True) if nman < 3 else (True,)):
                c = Ctx()
                out.append(("with-stmt-managers", with_form(c, nman, named, "pe", None, list(mk))))
    # --- with forms
    for nman in (1, 2):
        for named in (False, True):
            for bkind in ("pe", "sx"):
                c = Ctx()
                out.append(("with", with_form(c, nman, named, bkind)))
    if tier == "thorough":
        c = Ctx()
        out.append(("with3", with_form(c, 3, True, "pe")))
    # --- value of try / with used in expression position
    c = Ctx()
    out.append(("try-in-call", ("F", try_form(c, "pe", (("t", "E1"),), "pe", "pe"), "v9")))
    c = Ctx()
    out.append(("with-in-call", ("F", with_form(c, 1, False, "pe"), "v9")))
    c = Ctx()
    out.append(("setv-try", ("do", ("setv", "r", try_form(c, "sx", (("n", "E1"),), None, "pe")), "r")))
    c = Ctx()
    out.append(("setv-with", ("do", ("setv", "r", with_form(c, 1, True, "sx")), "r")))
    c = Ctx()
    out.append(("setx-try", ("#(", ("setx", "r", try_form(c, "pe", (("any",),), None, "pe")), 1)))
    c = Ctx()
    out.append(("setx-with", ("#(", ("setx", "r", with_form(c, 1, False, "pe")), 1)))
    # --- nesting depth 2
    inners = {
        "try": lambda c: try_form(c, "pe", (("t", "E1"),), None, "pe"),
        "try-any": lambda c: try_form(c, "pe", (("any",),), "pe", None),
        "try-fin": lambda c: try_form(c, "sx", (), None, "pe"),
        "with": lambda c: with_form(c, 1, False, "pe"),
        "with-named": lambda c: with_form(c, 1, True, "pe"),
    }
    for iname, inner in inners.items():
        for where in ("body", "handler", "finally"):
            for hs in ((("t", "E1"),), (("n", "E3"), ("any",))):
                c = Ctx()
                out.append(("try<%s:%s" % (where, iname), try_form(c, "pe", hs, "pe", "pe", "pe", (where, inner))))
        c = Ctx()
        out.append(("with<" + iname, with_form(c, 1, True, "pe", inner)))
        c = Ctx()
        out.append(("with2<" + iname, with_form(c, 2, False, "pe", inner)))
    if tier == "thorough":
        # depth 3: try in with in try
        for iname, inner in inners.items():
            for where in ("body", "handler", "finally"):
                c = Ctx()
                mid = lambda c2, inner=inner: with_form(c2, 1, False, "pe", inner)
                out.append(("try<%s:with<%s" % (where, iname), try_form(c, "pe", (("t", "E1"),), None, "pe", "pe", (where, mid))))
                c = Ctx()
                mid2 = lambda c2, inner=inner: try_form(c2, "pe", (("t", "E2"),), None, "pe", "pe", ("body", inner))
                out.append(("try<%s:try<%s" % (where, iname), try_form(c, "pe", (("t", "E1"),), None, "pe", "pe", (where, mid2))))
    # function-level placement for a subset
    extra = []
    for name, sk in out[::5]:
        extra.append((name + "@fn", ("call", ("fn", ("[",), sk))))
    return out + extra


def spec(tier, seed):
    obs = []
    for n, (name, sk) in enumerate(skeletons(tier)):
        fn = "h%d" % n
        info = skel.scan(sk)
        pairs = tier == "thorough" and len(info["sites"]) <= 9
        src, text = skel.harness_src(fn, sk, fault=True, exc=True, sup=True if info["cm"] else False, fault2=pairs)
        obs.append(Ob(fn, src, sample=name + "  " + text, group=name.split("<")[0], weight=len(info["sites"]) * (5 if pairs else 1)))
        if tier == "quick" and n % 4 == 0 and len(info["sites"]) <= 6:
            fn2 = "p%d" % n
            src, text = skel.harness_src(fn2, sk, fault=True, exc=False, sup=True if info["cm"] else False, fault2=True)
            obs.append(Ob(fn2, src, sample=name + " (fault pairs)  " + text, group="pairs", weight=10))
    c = Ctx()
    tw, _ = skel.harness_src("twin0", try_form(c, "pe", (("n", "E1"),), "pe", "pe"), fault=True, exc=True, twin=True)
    obs.append(Ob("twin0", tw, twin=True, group="twin"))
    return {
        "preamble": skel.PREAMBLE,
        "obligations": obs,
        "level": "fault_enumeration",
        "timeout": 240.0 if tier == "thorough" else 90.0,
        "path_timeout": 30.0,
        "batch": 6,
        "grade": "S",
        "functions_encoded": [
            "hy.core.result_macros.compile_try_expression (+ except-variable ScopeLet)",
            "hy.core.result_macros.compile_with_expression",
            "hy.core.result_macros.compile_raise_expression",
            "hy.compiler Result/temporaries for try/with values in expression position",
        ],
        "bounds": "try: body {expr, statements} x 9 handler sets (typed, named, tuple, named tuple, catch-all, empty tuple, two handlers) x else x finally "
                  "{none, expr, statements}; with: 1-2 managers (3 thorough), named/anonymous; nesting depth 2 (thorough 3) of try/with in body/handler/finally; "
                  "module and function level; symbolic: fault site k over every effect site incl. __enter__/__exit__ (and 'none'), exception class in "
                  "{E1, E2<E1, E3}, manager suppresses or not, truthiness; second fault site k2 (pairs) for %s" % (
                      "every skeleton with <= 9 sites" if tier == "thorough" else "every 4th skeleton with <= 6 sites"),
        "outside": "except* groups; async with; generators; more than two simultaneous faults; nesting deeper than stated",
        "stubs": ["crosshair.util.getsourcelines wrapper for .hy-defined callees"],
        "assumptions": [
            "oracle = vf/refsem.py, where try/with are evaluated with Python's own try/with statements; value rule from docs/api.rst "
            "(last form among body/except/else; with -> body value or None when suppressed); except variable is let-like",
        ],
        "rule": "one evaluation = one symbolic path (a class of (fault site, exception class, suppress flag, truthiness) assignments); "
                "non-trivial = the skeleton split into >= 2 feasible paths",
    }


MANIFEST = {
    "engine": "B",
    "level": "fault_enumeration",
    "technique": "CrossHair/z3: fault site, exception class and suppress flag as solver variables over real-compiler output vs Python-statement oracle",
    "text": "For each try/with skeleton the real compiler's code object is executed with a symbolic fault site (every effect site incl. manager enter/exit, one at a "
            "time and in pairs), symbolic exception class and suppress flag; result, escaping exception type, effect log (finally exactly once) and bindings must equal "
            "those of a reference interpreter that uses Python's own try/with. CrossHair confirms all paths or returns the failing fault assignment, replayed natively.",
    "note": "Bounded by skeleton set and nesting depth (evidence.bounds). Trusted: CPython try/with semantics, CrossHair, z3, vf/refsem.py.",
}
