"""C25: hy.repr of any readable model reads back to the same model (grade D/R)."""
from vf import readerlib, strsym
from vf.xh import Ob

PREAMBLE = '''\
import sys
from vf import skel as _sk
from checks.C25 import rt_ok, rt_after_ok, TEXTS, hole_ok, HALPH, SCAF
'''

TEXTS = [
    "a", "a-b!", "None", "True", ".", "...", "a.b.c", ".a.b", "..a", ":kw", ":", "1", "-7", "10000000000000000000000", "1.5", "-0.0", "1e300", "NaN", "Inf", "-Inf", "2j", "1+2j",
    "\"\"", "\"s\"", "\"a\\nb\\\"c\\\\\"", "\"é😀\\x00\"", "b\"\"", "b\"\\x00\\xff\"", "#[[b s]]", "#[a[x ]] y]a]", "#[[\nleading newline]]", "#[[\n\ntwo]]", "#[=[]]=]", "#[[ \"q\" ]]",
    "()", "[]", "#()", "{}", "#{}", "(f)", "(f x 1)", "[1 [2 [3]]]", "#(1 2)", "{\"k\" 1 :j [2]}", "#{1 2}", "(a (b (c)))", "[() [] {} #() #{}]",
    "'x", "`x", "~x", "~@x", "'(a b)", "`(a ~b ~@c)", "''x", "'`~x", "#* x", "#** x", "#^ int x", "(. a b)", "(. a [b])", "(quote)", "(quote a b)", "(unquote)", "(unpack-iterable)", "(. )", "(. a)",
    "f\"\"", "f\"a\"", "f\"{x}\"", "f\"a{x}b\"", "f\"{x !r}\"", "f\"{x !s}\"", "f\"{x !a}\"", "f\"{x :>4}\"", "f\"{x !r :>4}\"", "f\"{x :{w}}\"", "f\"{x :{w}.{p}f}\"", "f\"{x :a{w}b{p}c}\"",
    "f\"{x = }\"", "f\"{x =}\"", "f\"{{}}\"", "f\"{(+ 1 2)}\"", "f\"{\"s\"}\"", "f\"{x :{y :{z}}}\"", "#[f[a{x}b]f]", "#[f[{x !r :>{w}}]f]", "#[f-a[{x}]f-a]", "f\"\\n{x}\\\"\"",
    "(defn f [a #* b #** c] \"doc\" (+ a 1))", "(setv #^ int x 1)", "(lfor x xs :if (> x 0) x)", "(match v [a #* _] a {\"k\" x #** r} r)", "(import a.b [c :as d])", "(.m o 1)", "(a.b.c 1)",
    # (round 4) fields holding brace-initial forms, doubled braces and backslashes in format specs, @-initial unquote operands
    "f\"{ {1 2} }\"", "f\"{ #{1} !r}\"", "f\"{x :a{{b}\"", "f\"{x :{{}}}\"", "#[f[{x :{{]f]", "f\"{x :}}a{{{w}}\"", "'(unquote @a.b)", "'(unquote @a)", "'~@a.b", "`(~ @a.b ~@ a.b)",
]

HALPH = "a1 -.:\"\\]['`~{}\n#"
SCAF = ["{h}", "\"{h}\"", "#[[{h}]]", "#[q[{h}]q]", "f\"{h}\"", "f\"{{x :{h}}}\"", "[{h}]", "'{h}", "b\"{h}\""]


def _check_text(text):
    import hy

    r = readerlib.read_all(text)
    if r[0] != "ok":
        return None  # not readable: outside the property's domain
    for m in r[1]:
        try:
            s = hy.repr(m)
        except Exception as e:
            return "hy.repr(%r) raised %s" % (m, type(e).__name__)
        try:
            back = hy.eval(hy.read(s), {})
        except Exception as e:
            return "text %r: hy.repr gives %r, which fails to read/evaluate: %s: %s" % (text, s, type(e).__name__, str(e)[:80])
        if not readerlib.meq(back, m):
            return "text %r: hy.repr gives %r, which evaluates to %r, not %r" % (text, s, back, m)
        if isinstance(m, hy.models.FComponent) or isinstance(m, hy.models.FString):
            pass
        try:
            s2 = hy.repr(back)
        except Exception as e:
            return "printing the round-tripped model raised %s" % type(e).__name__
        if s2 != s:
            return "text %r: printing again gives %r, first %r" % (text, s2, s)
        # extra attributes
        def attrs(a, b):
            if type(a) is not type(b):
                return "type %s vs %s" % (type(a).__name__, type(b).__name__)
            for nm in ("brackets", "conversion", "is_tstring"):
                if getattr(a, nm, None) != getattr(b, nm, None):
                    return "%s %r vs %r on %r" % (nm, getattr(a, nm, None), getattr(b, nm, None), a)
            if isinstance(a, hy.models.Sequence):
                for x, y in zip(a, b):
                    d = attrs(x, y)
                    if d:
                        return d
            return None
        d = attrs(m, back)
        if d:
            return "text %r round-trips with different attributes: %s" % (text, d)
    return None


# texts with a recorded finding: one obligation each, so that a known finding never hides another text of a group
SINGLE_TEXTS = ["f\"{x :\\\\n}\"", "f\"a\\\\N{x}\"", "#[f[{x :\\n}]f]", "f\"{x :\\t{w}}\""]


class _Bad:
    def __repr__(self):
        raise KeyError("printer failure")


def _check_after_failure(text):
    """The round trip must also hold after an earlier hy.repr call failed half-way through a model."""
    import hy

    try:
        hy.repr(hy.models.List([hy.models.Symbol("a"), hy.models.Expression([hy.models.Symbol("f"), _Bad()])]))
        return "hy.repr of a model holding an object whose repr raises did not raise"
    except KeyError:
        pass
    r = _check_text(text)
    return None if r is None else "after a failed hy.repr call: " + r


def rt_after_ok(i, why=None):
    from vf import skel

    if why is None and skel.EXPLAIN[0]:
        del skel.LAST_WHY[:]
        why = skel.LAST_WHY
    r = strsym.untraced(_check_after_failure, TEXTS[i])
    if r is not None and why is not None:
        why.append(r)
    return r is None


def rt_ok(i, why=None):
    from vf import skel

    if why is None and skel.EXPLAIN[0]:
        del skel.LAST_WHY[:]
        why = skel.LAST_WHY
    r = strsym.untraced(_check_text, TEXTS[i] if i >= 0 else SINGLE_TEXTS[-1 - i])
    if r is not None and why is not None:
        why.append(r)
    return r is None


def hole_ok(si, h, why=None):
    from vf import skel

    if why is None and skel.EXPLAIN[0]:
        del skel.LAST_WHY[:]
        why = skel.LAST_WHY
    text = SCAF[si].replace("{{", "\x00").replace("}}", "\x01").replace("{h}", h).replace("\x00", "{").replace("\x01", "}")
    r = strsym.untraced(_check_text, text)
    if r is not None and why is not None:
        why.append(r)
    return r is None


def finding_key(ob, rec):
    return "%s" % (rec.get("replay_detail"),)


def spec(tier, seed):
    obs = []
    chunk = 12
    for c0 in range(0, len(TEXTS), chunk):
        fn = "t%d" % c0
        n = min(chunk, len(TEXTS) - c0)
        L = ["def %s(i: int) -> bool:" % fn, '    """', "    post: _", '    """', "    return rt_ok(%d + _sk.box(i, 0, %d))" % (c0, n - 1)]
        obs.append(Ob(fn, "\n".join(L), sample="texts %r" % (TEXTS[c0:c0 + n],), group="texts"))
    for k, t in enumerate(SINGLE_TEXTS):
        L = ["def k%d(i: int) -> bool:" % k, '    """', "    post: _", '    """', "    return rt_ok(%d)" % (-1 - k)]
        obs.append(Ob("k%d" % k, "\n".join(L), sample="text %r" % (t,), group="texts"))
    L = ["def tafter(i: int) -> bool:", '    """', "    post: _", '    """', "    return rt_after_ok(_sk.box(i, 0, %d))" % (len(TEXTS) - 1)]
    obs.append(Ob("tafter", "\n".join(L), sample="each text again after a hy.repr call that failed inside a model (a printer raising)", group="after-failure"))
    maxlen = 2 if tier == "quick" else 3
    for si, sc in enumerate(SCAF):
        obs += strsym.string_box_obs("s%d_" % si, "hole_ok(%d, {s})" % si, "HALPH", HALPH, maxlen, "scaffold",
                                     "scaffold " + repr(sc).replace("{", "{{").replace("}", "}}") + " with hole of length <= {n} over {alph!r} (texts that do not read are skipped)", fixed_first=False)
    tw = "\n".join(["def twin0(i: int) -> bool:", '    """', "    post: _", '    """', "    rt_ok(_sk.box(i, 0, 3))", "    return False"])
    obs.append(Ob("twin0", tw, twin=True, group="twin"))
    return {
        "preamble": PREAMBLE,
        "obligations": obs,
        "level": "exploration",
        "timeout": 1200.0,
        "path_timeout": 60.0,
        "batch": 2,
        "grade": "D/R (texts and holes selected by folded selectors; reader / hy.repr / hy.eval run untraced on concrete inputs)",
        "functions_encoded": ["hy.core.hy_repr (every registered model printer: String incl. brackets, FString/FComponent incl. conversion and nested format specs, Expression sugar, Dict, ...)",
                              "hy.reader (reading the printed text)", "hy.eval of the printed quoted model"],
        "bounds": "%d hand-written texts over every syntax form (atoms, numbers incl. special floats, strings/bytes with escapes, bracket strings with delimiters and leading newlines, all "
                  "collection kinds, all sugar, dotted forms, degenerate quote/unquote expressions, f-strings with conversions, '=', nested specs of 1-3 components, bracket f-strings) plus %d "
                  "scaffolds with a hole of length <= %d over %r" % (len(TEXTS), len(SCAF), maxlen, HALPH),
        "outside": "models assembled from constructors that the reader cannot produce; longer holes",
        "stubs": ["calls executed under crosshair.tracers.NoTracing"],
        "assumptions": ["equality is type-aware and includes brackets / conversion / is_tstring (vf/readerlib.py:meq + attribute walk)"],
        "rule": "one evaluation = one text (one selector path); non-trivial = an obligation whose selector box splits into >= 2 paths",
    }


MANIFEST = {
    "engine": "A",
    "level": "exploration",
    "technique": "CrossHair/z3 as enumerator of texts and scaffold holes; real reader, hy.repr and hy.eval composed and compared with type-aware model equality",
    "text": "Every readable text in the boxes is read, printed with hy.repr, read and evaluated again; the result must equal the original model node by node (types, brackets, conversion, "
            "is_tstring) and print to the same text. Claimed as exploration (grade D/R).",
    "note": "Exhaustive only inside the stated text list and hole boxes.",
}
