"""C14: hy2py output (ast.unparse of the compiled module) parses and behaves like the AST."""
from vf import gen, skel
from vf.xh import Ob
from checks import C09 as _c09

KEYWORD_TEXTS = [
    ("kw-var", "(setv class (E 0 v0)) (setv 𝐝ef class) [class 𝐝ef]"),
    ("kw-fn", "(defn def [if] (E 0 if)) (def :if v0)"),
    ("kw-attr", "(setv o (type \"T\" #() {})) (setv o.class (E 0 v0)) o.class"),
    ("kw-param", "((fn [[lambda v0] #** import] [lambda (len import)]) :while v1)"),
    ("kw-except", "(try (raise (E1)) (except [as E1] (E 0 v0)))"),
    ("kw-import-as", "(import sys :as del) (E 0 v0)"),
    ("non-ascii", "(setv ｆoo (E 0 v0)) (setv ñ (E 1 v1)) [ｆoo ñ foo]"),
    ("str-consts", "[\"class\" \"a\\\\b\\n\" b\"\\x00\\xff\" (E 0 v0)]"),
    ("fstring", "(setv w 5) f\"{(E 0 v0)!r:>{w}} {{}} {w =}\""),
    ("nums", "[1.5 -0.0 1e300 (- 1e308 -1e308) 2j (E 0 v0) 10000000000000000000000]"),
    ("walrus", "(if (setx y (E 0 v0)) [y 1] [y 2])"),
    ("lambda-star", "((fn [a / b * c #** k] [a b c k]) (E 0 v0) 2 :c 3 :d 4)"),
    ("nested-fstring-quotes", "f\"{(get {\"k\" (E 0 v0)} \"k\")}\""),
    ("decorated", "(defn [(fn [f] (E 0 f))] g [] (E 1 v0)) (g)"),
    ("class", "(defclass C [] (setv a (E 0 v0)) (defn m [self] (E 1 self.a))) (.m (C))"),
    ("global-nonlocal", "(setv n v0) (defn f [] (global n) (setv n (E 0 v1))) (f) n"),
    ("chained-cmp", "(< x0 (E 0 x1) x2)"),
    ("unpack-assign", "(setv [a #* b] (E 0 xs0)) [a b]"),
    ("del-assert", "(setv a 1) (del a) (assert (E 0 v0) \"m\") 3"),
    ("annotated-varargs-lambda", "((fn [#^ int #* xs] (E 0 (len xs))) 1 2)"),
    ("annotated-kwargs-lambda", "((fn [#^ int a #^ str #** k] [a (len k) (E 0 v0)]) 1 :z 2)"),
    ("annotated-return-lambda", "((fn #^ int [a] (E 0 a)) 1)"),
    ("annotated-defn", "(defn #^ int g [#^ int a * #^ str [b \"x\"]] [a b (E 0 v0)]) (g 1)"),
    ("kw-from-import-as", "(import os.path [basename :as from sep :as class]) [(from \"a/b\") (E 0 v0)]"),
    ("kw-match-rest", "(match {\"a\" 1 \"b\" (E 0 2)} {\"a\" 1 #** pass} pass)"),
    ("kw-global", "(setv def 1) (defn f [] (global def) (setv def (E 0 v0))) (f) def"),
    ("neg-const-pow", "[(** -1 2) (.bit-length -5) (E 0 v0) (- 2) (** (- x0) 2)]"),
    ("match", "(match (E 0 x0) 1 \"one\" [a b] [a b] {\"k\" v} v _ (E 1 v0))"),
]


def skeletons(tier):
    out = []
    d1 = gen.depth1()
    for i, (name, sk) in enumerate(d1):
        if tier == "thorough" or i % 4 == 0:
            out.append(("m:" + name, sk))
    for i, (name, sk) in enumerate(gen.depth1(in_fn=True)):
        if (tier == "thorough" and i % 2 == 0) or i % 17 == 0:
            out.append(("f:" + name, ("call", ("fn", ("[",), sk))))
    for name, sk in gen.depth2(stride=997 if tier == "quick" else 53):
        out.append(("m2:" + name, sk))
    for i, (name, sk) in enumerate(_c09.skeletons("quick")):
        if tier == "thorough" or i % 5 == 0:
            out.append(("try/with:" + name, sk))
    return out


def spec(tier, seed):
    obs = []
    n = 0
    for name, sk in skeletons(tier):
        fn = "h%d" % n
        n += 1
        box = (-2, 2) if "cut" in name else (-3, 4) if "setv-get" in name else None
        src, text = skel.pair_harness_src(fn, sk, fault=name.startswith("try/with"), int_box=box)
        obs.append(Ob(fn, src, sample=name + "  " + text, group=name.split("[")[0].split("@")[0].split("<")[0],
                      timeout=300.0 if "cut" in name else None))
    for name, text in KEYWORD_TEXTS:
        fn = "h%d" % n
        n += 1
        sk = ("raw", text)
        # scan needs variables: derive from the text
        import re
        fake = tuple(re.findall(r"\b(?:v|x|xs)\d+\b", text)) + tuple(("E", int(s)) for s in re.findall(r"\(E (\d+)", text))
        src, _ = skel.pair_harness_src(fn, ("do",) + fake, fault=True, text=text)
        obs.append(Ob(fn, src, sample=name + "  " + text, group="keywords-and-literals"))
    tw, _ = skel.pair_harness_src("twin0", gen.instantiate(dict(gen.templates())["if"], {0: "pe", 1: "sx", 2: "st"}), twin=True, fault=False)
    obs.append(Ob("twin0", tw, twin=True, group="twin"))
    return {
        "preamble": skel.PREAMBLE,
        "obligations": obs,
        "level": "translation_validation",
        "timeout": 90.0,
        "path_timeout": 30.0,
        "batch": 24,
        "grade": "S",
        "programs": len(obs) - 1,
        "functions_encoded": [
            "hy.cmdline.hy2py_worker's translation step: hy_compile(whole module) + ast.unparse (as patched by hy.compat when active)",
            "hy.compiler / hy.core.result_macros (the AST being printed)",
        ],
        "bounds": "skeleton languages of C01 (every %s depth-1 skeleton, sampled function-level and depth-2) and C09 (every %s try/with skeleton, with a "
                  "symbolic fault site), plus %d hand-written programs with Python keywords / non-ASCII names / literals / f-strings / match / classes; "
                  "symbolic inputs as in C01/C09" % ("" if tier == "thorough" else "4th", "" if tier == "thorough" else "5th", len(KEYWORD_TEXTS)),
        "outside": "hy2py's file handling and option parsing (--with-source/--with-ast printing), recursive directory mode; programs outside the skeleton languages",
        "stubs": ["crosshair.util.getsourcelines wrapper for .hy-defined callees"],
        "assumptions": ["both sides are executed by CPython; equality of result, exception type, exact effect log and all globals is required (same AST, so even temporaries must agree)"],
    }


MANIFEST = {
    "engine": "B",
    "level": "translation_validation",
    "technique": "CrossHair/z3 symbolic execution of AST-compiled code vs code compiled from ast.unparse of the same AST",
    "text": "For each skeleton the module AST from the real compiler is (a) compiled directly and (b) printed with ast.unparse as hy2py does, re-parsed and compiled; the printed "
            "source must parse, and both code objects must agree on result, exception type, exact effect log and all globals for every symbolic input.",
    "note": "Bounded by the skeleton set. Trusted: CPython, CrossHair, z3.",
}
