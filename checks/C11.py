"""C11: no subform in an evaluated position is silently dropped.

For every form x slot x {plain effectful call, #* effectful, #** effectful}:
either compilation raises a Hy error (allowed only for the unpacking fills:
"if Python has no construct for it, compilation fails with a Hy error"), or
 (i)  every effect site occurs in the compiled AST, and
 (ii) for all symbolic operand values, a run that completes without an
      exception has evaluated every site exactly once; where the reference
      interpreter knows the form, full agreement (Engine B) is required too.
"""
import ast

from vf import skel, refsem
from vf.xh import Ob

PREAMBLE = skel.PREAMBLE + "from checks.C11 import sites_ok as _sites_ok\n"

# templates: every hole is evaluated unconditionally, exactly once
# H<i> marks a hole; kind says what type the plain operand has
TPLS = [
    ("list", ("[", "H0:x", "H1:x"), True),
    ("tuple", ("#(", "H0:x", "H1:x"), True),
    ("set", ("#{", "H0:x", "H1:x"), False),
    ("dict-val", ("{", ("str", "a"), "H0:x", ("str", "b"), "H1:x"), True),
    ("dict-key", ("{", "H0:x", 1), True),
    ("dict-tail", ("{", ("str", "a"), 1, "H0:u"), True),
    ("call", ("F", "H0:x", "H1:x"), True),
    ("call-kw", ("F", "H0:x", (":", "k"), "H1:x"), True),
    ("call-head-args", ("call", ("MKF", "H0:x"), "H1:x"), False),
    ("method", (".append", ("[",), "H0:x"), False),
    ("method-obj", (".count", "H0:xs", 1), False),
    ("get", ("get", "xs9", "H0:i"), False),
    ("get-obj", ("get", "H0:xs", 0), False),
    ("get2", ("get", ("[", "xs9", "xs9"), "H0:i", "H1:i"), False),
    ("cut", ("cut", "xs9", "H0:i", "H1:i"), False),
    ("cut3", ("cut", "xs9", "H0:i", "H1:i", "H2:p"), False),
    ("dot-sub", (".", "xs9", ("[", "H0:i")), False),
    ("add", ("+", "H0:x", "H1:x", "H2:x"), False),
    ("sub1", ("-", "H0:x"), False),
    ("mul1", ("*", "H0:x"), False),
    ("pow", ("**", "H0:p", "H1:p"), False),
    ("lt", ("<", "H0:x", "H1:x"), False),
    ("lt1", ("<", "H0:x"), False),
    ("eq1", ("=", "H0:x"), False),
    ("ne2", ("!=", "H0:x", "H1:x"), False),
    ("is1", ("is", "H0:x"), False),
    ("in", ("in", "H0:x", "H1:xs"), False),
    ("not", ("not", "H0:x"), False),
    ("bnot", ("bnot", "H0:x"), False),
    ("and1", ("and", "H0:x"), False),
    ("or1", ("or", "H0:x"), False),
    ("and-true", ("and", True, "H0:x"), False),
    ("if-test", ("if", "H0:x", 1, 2), False),
    ("when-test", ("when", "H0:x", 1), False),
    ("cond-test", ("cond", "H0:x", 1, True, 2), False),
    ("setv", ("setv", "a", "H0:x"), False),
    ("setx", ("setx", "a", "H0:x"), False),
    ("setv-target-get", ("do", ("setv", "d", ("[", 0, 0, 0)), ("setv", ("get", "d", "H0:i"), "H1:x")), False),
    ("augassign", ("do", ("setv", "a", 1), ("+=", "a", "H0:x", "H1:x")), False),
    ("do", ("do", "H0:x", "H1:x"), False),
    ("let", ("let", ("[", "a", "H0:x"), "H1:x"), False),
    ("fn-default", ("call", ("fn", ("[", ("[", "p", "H0:x")), "p")), False),
    ("return", ("call", ("fn", ("[",), ("return", "H0:x"))), False),
    ("assert-test", ("assert", ("or", "H0:x", True)), False),
    ("while-test", ("while", "H0:x", ("break",)), False),
    ("for-iter", ("for", ("[", "i", "H0:xs")), False),
    ("lfor-iter", ("lfor", "i", "H0:xs", "i"), False),
    ("lfor-val", ("lfor", "i", ("[", 1), "H0:x"), True),
    ("sfor-val", ("sfor", "i", ("[", 1), "H0:x"), True),
    ("gfor-val", ("list", ("gfor", "i", ("[", 1), "H0:x")), True),
    ("dfor-kv", ("dfor", "i", ("[", 1), "H0:x", "H1:x"), False),
    ("dfor-unpack", ("dfor", "i", ("[", 1), "H0:u"), True),
    ("lfor-if", ("lfor", "i", ("[", 1), (":", "if"), "H0:x", "i"), False),
    ("with-mgr", ("with", ("[", ("CMX", "H0:x")), 1), False),
    ("try-body", ("try", "H0:x", ("finally", "H1:x")), False),
    ("raise", ("try", ("raise", ("E1", "H0:x")), ("except", ("[", "E1"), "H1:x")), False),
    ("fstring", ("raw", 'f"a{H0:x}b{H1:x !r:>3}"'), False),
    ("fstring-spec", ("raw", 'f"{1 :{H0:x}}"'), False),
    ("print-like-kw", ("F", (":", "k"), "H0:x", "H1:x"), True),
    ("unpack-target", ("setv", ("[", "a", ("unpack-iterable", "b")), "H0:xs"), False),
    ("index-chain", ("get", ("get", ("[", "xs9"), "H0:i"), "H1:i"), False),
    ("nested-list", ("[", ("[", "H0:x"), ("#(", "H1:x")), True),
    ("quasi", ("raw", "`[~H0:x ~@H1:xs]"), False),
    ("defclass-base", ("defclass", "K", ("[", ("OBJ", "H0:x"))), False),
    ("decorator", ("defn", ("[", ("DECO", "H0:x")), "g", ("[",)), False),
    ("annotated", ("raw", "(setv #^ (ANN H0:x) a 1)"), False),
    ("del-sub", ("do", ("setv", "d", ("[", 0, 0, 0)), ("del", ("get", "d", "H0:i"))), False),
    ("chainc", ("chainc", "H0:x", "<", "H1:x", "<=", 5), False),
    ("yield", ("list", ("call", ("fn", ("[",), ("yield", "H0:x")))), False),
    ("global-call-star-first", ("F", "H0:u", 1), True),
]

FILLS = ("pe", "star", "dstar", "sx", "star-sx", "dstar-sx")


def leaf(kind, c):
    if kind in ("x", "u"):
        c["x"] += 1
        return "x%d" % (c["x"] - 1)
    if kind == "i":
        c["x"] += 1
        return ("IDX", "x%d" % (c["x"] - 1))  # index into a 3-element list: always valid
    if kind == "p":
        return 1
    if kind == "xs":
        c["xs"] += 1
        return "xs%d" % (c["xs"] - 1)
    raise ValueError(kind)


def mkfill(fill, kind, c):
    s = c["site"]
    c["site"] += 1
    if fill == "pe":
        if kind == "u":
            return None
        return ("E", s, leaf(kind, c))
    if fill == "sx":
        # a statement-producing operand: its statements must not be lost either
        if kind == "u":
            return None
        c["site"] += 1
        return ("do", ("E", s, 0), ("E", s + 1, leaf(kind, c)))
    if fill == "star-sx":
        c["site"] += 1
        lf = ("[", leaf("xs", c)) if kind == "xs" else ("[", leaf(kind if kind != "u" else "x", c))
        return ("unpack-iterable", ("do", ("E", s, 0), ("E", s + 1, lf)))
    if fill == "dstar-sx":
        c["site"] += 1
        return ("unpack-mapping", ("do", ("E", s, 0), ("E", s + 1, ("{", ("str", "k"), leaf("x", c)))))
    if fill == "star":
        if kind == "xs":
            # an iterable-typed slot: unpack a list holding one list
            return ("unpack-iterable", ("E", s, ("[", leaf("xs", c))))
        if kind in ("x", "u", "i", "p"):
            return ("unpack-iterable", ("E", s, ("[", leaf(kind if kind != "u" else "x", c))))
    if fill == "dstar":
        return ("unpack-mapping", ("E", s, ("{", ("str", "k"), leaf("x", c))))
    raise ValueError(fill)


def instantiate(tpl, assignment):
    c = {"site": 0, "x": 0, "xs": 0}
    ok = [True]

    def rec(x):
        if isinstance(x, str) and x.startswith("H") and ":" in x and x[1].isdigit():
            idx, kind = x[1:].split(":")
            f = mkfill(assignment[int(idx)], kind, c)
            if f is None:
                ok[0] = False
            return f
        if isinstance(x, tuple):
            if x and x[0] == "raw":
                txt = x[1]
                import re

                def sub(m):
                    f = mkfill(assignment[int(m.group(1))], m.group(2), c)
                    if f is None:
                        ok[0] = False
                        return ""
                    return skel.render(f)

                return ("raw", re.sub(r"H(\d):(\w+)", sub, txt))
            return tuple(rec(a) for a in x)
        return x

    out = rec(tpl)
    return (out if ok[0] else None), c["site"]


def nholes(tpl):
    import re

    return len(set(re.findall(r"H(\d):", repr(tpl))))


def cases(tier):
    out = []
    for name, tpl, oracle_ok in TPLS:
        n = nholes(tpl)
        seen = set()
        for h in range(n):
            for f in FILLS:
                asg = {i: ("pe" if i != h else f) for i in range(n)}
                key = tuple(sorted(asg.items()))
                if key in seen:
                    continue
                seen.add(key)
                sk, ns = instantiate(tpl, asg)
                if sk is None:
                    # 'u' holes have no plain fill: use star for the others
                    asg = {i: ("star" if i != h else f) for i in range(n)}
                    sk, ns = instantiate(tpl, asg)
                    if sk is None:
                        continue
                out.append(("%s[%s]" % (name, ",".join(asg[i] for i in range(n))), sk, ns, any(v != "pe" for v in asg.values()), oracle_ok))
        if n >= 2:
            for f in ("star", "dstar"):
                asg = {i: f for i in range(n)}
                sk, ns = instantiate(tpl, asg)
                if sk is not None:
                    out.append(("%s[%s]" % (name, ",".join(asg[i] for i in range(n))), sk, ns, True, oracle_ok))
    return out


class _CMX:
    def __init__(self, v):
        self.v = v

    def __enter__(self):
        return self.v

    def __exit__(self, *a):
        return False


def _env_extras(g):
    g["CMX"] = _CMX
    g["MKF"] = lambda *a, **k: skel._F
    g["IDX"] = lambda v: (0 if v < 0 else 2 if v > 2 else v)
    g["OBJ"] = lambda v: object
    g["DECO"] = lambda v: (lambda f: f)
    g["ANN"] = lambda v: int
    g["xs9"] = [[7, 8, 9], [7, 8, 9], [7, 8, 9]]


def site_constants(tree):
    found = set()
    for node in ast.walk(tree):
        if isinstance(node, ast.Call) and isinstance(node.func, ast.Name) and node.func.id == "E" and node.args:
            a = node.args[0]
            if isinstance(a, ast.Constant) and isinstance(a.value, int):
                found.add(a.value)
    return found


def sites_ok(prog, nsites, has_unpack, vals, sk=None, why=None):
    if why is None and skel.EXPLAIN[0]:
        del skel.LAST_WHY[:]
        why = skel.LAST_WHY
    if prog[0] != "ok":
        # a Hy error is an allowed answer only where Python may lack a construct
        if has_unpack and prog[1] in ("HySyntaxError", "HyMacroExpansionError", "HyLanguageError", "HyCompileError", "SyntaxError"):
            return True
        if why is not None:
            why.append("rejected a form without unpacking: %r" % (prog[1:3],))
        return False
    present = site_constants(prog[3]) | site_constants(prog[4])
    for s in range(nsites):
        if s not in present:
            if why is not None:
                why.append("site %d does not occur in the compiled code (dropped at compile time)" % s)
            return False
    log = []
    g = {}
    from vf.envobj import mkE, mkCM

    E = mkE(log)
    skel.fill_env(g, E, mkCM(E, False), vals)
    _env_extras(g)
    try:
        skel.run_code(prog, g)
    except Exception:
        return True  # an exception legitimately cuts evaluation short: not judged
    if len(log) != nsites:
        if why is not None:
            why.append("completed normally but evaluated sites %r, expected each of 0..%d once" % (log, nsites - 1))
        return False
    for s in range(nsites):
        cnt = 0
        for e in log:
            if e == s:
                cnt += 1
        if cnt != 1:
            if why is not None:
                why.append("site %d evaluated %d times (log %r)" % (s, cnt, log))
            return False
    return True


def spec(tier, seed):
    obs = []
    cs = cases(tier)
    for n, (name, sk, ns, has_unpack, oracle_ok) in enumerate(cs):
        fn = "h%d" % n
        text = skel.render(sk)
        info = skel.scan(sk if sk[0] != "raw" else tuple(__import__("re").findall(r"\b(?:x|xs)\d+\b", sk[1])))
        params, vals, pre = [], [], []
        for i in sorted(info["x"]):
            params.append("x%d: int" % i)
            vals.append('("x%d", ("N", x%d))' % (i, i))
            pre.append("-1 <= x%d <= 1" % i)  # operand values are irrelevant to C11; hashing/formatting would realise them
        for i in sorted(info["xs"]):
            params.append("xs%d: List[int]" % i)
            vals.append('("xs%d", ("L", xs%d))' % (i, i))
            pre.append("len(xs%d) <= 2" % i)
        L = ["P_%s = _sk.compile_prog(%r)" % (fn, text),
             "def %s(%s) -> bool:" % (fn, ", ".join(params)), '    """']
        L += ["    pre: " + p for p in pre]
        L += ["    post: _", '    """']
        L.append("    return _sites_ok(P_%s, %d, %r, [%s])" % (fn, ns, has_unpack, ", ".join(vals)))
        obs.append(Ob(fn, "\n".join(L), sample=name + "  " + text, group=name.split("[")[0]))
    tw = "\n".join(["P_twin0 = _sk.compile_prog('[(E 0 x0) #* (E 1 [x1])]')", "def twin0(x0: int, x1: int) -> bool:", '    """', "    post: _", '    """',
                    "    _sites_ok(P_twin0, 2, True, [('x0', ('N', x0)), ('x1', ('N', x1))])", "    return False"])
    obs.append(Ob("twin0", tw, twin=True, group="twin"))
    return {
        "preamble": PREAMBLE,
        "obligations": obs,
        "level": "translation_validation",
        "timeout": 60.0,
        "path_timeout": 20.0,
        "batch": 16,
        "grade": "S for operand values; shapes enumerated",
        "programs": len(cs),
        "functions_encoded": [
            "hy.compiler.HyASTCompiler._compile_collect, compile_expression, compile_list/dict/tuple",
            "hy.core.result_macros: compile_index/cut/attribute access, compile_maths/compare/unary/augassign, compile_logical, compile_if, "
            "compile_def_expression, compile_comprehension, compile_with/try/raise/return/assert/while/for, compile_fstring (hy.compiler), quasiquote",
            "hy.macros.pattern_macro (unpack-mapping rejection, shadow fallback)",
        ],
        "bounds": "%d form templates (collection displays, calls, method calls, get/cut/./subscript targets, arithmetic/comparison/unary/logical operators incl. "
                  "unary forms, if/when/cond tests, setv/setx/augmented assignment, let, fn defaults, return, assert, while, for, comprehensions, with, try, raise, "
                  "f-string fields and specs, quasiquote, class bases, decorators, annotations, del, chainc, yield); each slot filled with {effectful call, statement-producing form, #* / #** of an effectful call, #* / #** of a statement-producing form}, other slots effectful; operand ints and lists symbolic" % len(TPLS),
        "outside": "forms not listed; runs that end in an exception are not judged (the exception may legitimately cut evaluation short)",
        "stubs": ["crosshair.util.getsourcelines wrapper for .hy-defined callees"],
        "assumptions": ["every hole of every template is in an unconditionally evaluated position, so a normal run must log every site exactly once"],
    }


MANIFEST = {
    "engine": "B",
    "level": "translation_validation",
    "technique": "CrossHair/z3 symbolic execution of real-compiler output: every effect site must be evaluated exactly once on normal completion; plus compiled-AST site scan",
    "text": "Every evaluated slot of every form template is filled with an effectful call, a #* form and a #** form; compilation must either fail with a Hy error (allowed for "
            "unpacking only) or produce code in which every site occurs and, for all symbolic operand values, every site is evaluated exactly once when the run completes.",
    "note": "Bounded by the template list. Trusted: CPython, CrossHair, z3.",
}
