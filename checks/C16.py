"""C16: compile-time staging: eval-when-compile, eval-and-compile, do-mac (Engine B + concrete compile-time log)."""
import marshal
import types

from vf import skel, refsem
from vf.xh import Ob

PREAMBLE = skel.PREAMBLE + "from checks.C16 import compile_ct as _compile_ct, staged_agree as _staged_agree\n"

STAGES = {
    "ewc": lambda k: ("eval-when-compile", ("CT", k), 5),
    "ewc2": lambda k: ("eval-when-compile", ("CT", k), ("CT", k + 1)),
    "eac": lambda k: ("eval-and-compile", ("CT", k), 7),
    "eac-setv": lambda k: ("eval-and-compile", ("setv", "ctvar%d" % k, ("CT", k)), "ctvar%d" % k),
    "domac": lambda k: ("do-mac", ("CT", k), ("quote", ("E", 60 + k, "v9"))),
    # do-mac values that are falsy but not None are still code
    "domac-0": lambda k: ("do-mac", ("CT", k), 0),
    "domac-str": lambda k: ("do-mac", ("CT", k), ("str", "")),
    "domac-false": lambda k: ("do-mac", ("CT", k), False),
    "domac-list": lambda k: ("do-mac", ("CT", k), ("[",)),
    "domac-arith": lambda k: ("do-mac", ("CT", k), ("-", 3, 3)),
    "domac-do": lambda k: ("do-mac", ("CT", k), ("quote", ("do", ("setv", "dm%d" % k, ("E", 60 + k, "v9")), "dm%d" % k))),
}


def placements(stage_a, stage_b):
    return [
        ("top", ("do", stage_a, ("E", 0, "v0"))),
        ("top-value", ("#(", stage_a, ("E", 0, "v0"))),
        ("if", ("if", ("E", 0, "v0"), stage_a, stage_b)),
        ("when", ("when", ("E", 0, "v0"), stage_a, ("E", 1, "v1"))),
        # branches that can never run are still compiled, so their staging forms still run at compile time
        ("if-true", ("if", True, stage_a, stage_b)),
        ("if-false", ("if", False, stage_a, stage_b)),
        ("if-none", ("if", None, ("do", stage_a, ("E", 1, "v1")), stage_b)),
        ("when-false", ("do", ("when", False, stage_a), ("E", 0, "v0"))),
        ("cond-true", ("cond", True, stage_a, ("E", 0, "v0"), stage_b)),
        ("fn-twice", ("do", ("defn", "g", ("[",), stage_a), ("#(", ("g",), ("E", 0, "v0"), ("g",)))),
        ("fn-never", ("do", ("defn", "g", ("[",), stage_a), ("E", 0, "v0"))),
        ("loop", ("for", ("[", "i", "xs0"), stage_a, ("E", 0, "i"))),
        ("lfor", ("lfor", "i", "xs0", ("#(", "i", stage_a))),
        ("call-arg", ("F", stage_a, ("E", 0, "v0"))),
        ("nested-fn", ("call", ("fn", ("[",), ("call", ("fn", ("[",), stage_a))))),
        ("try", ("try", stage_a, ("finally", ("E", 0, "v0")))),
        ("let", ("let", ("[", "q", stage_a), ("#(", "q", stage_b))),
    ]


def ct_sites(sk, acc=None):
    """Compile-time log expected: every CT site of every staging form, once, in source order."""
    acc = [] if acc is None else acc
    if isinstance(sk, tuple) and sk:
        if sk[0] in ("eval-when-compile", "eval-and-compile", "do-mac"):
            def inner(x):
                if isinstance(x, tuple) and x:
                    if x[0] == "quote":
                        return
                    if x[0] == "CT":
                        acc.append(x[1])
                    for a in x:
                        inner(a)
            for a in sk[1:]:
                inner(a)
            return acc
        if sk[0] in ("str", ":", "raw"):
            return acc
        for a in sk:
            ct_sites(a, acc)
    return acc


def compile_ct(text):
    """Compile with a compile-time environment that records CT calls."""
    import ast
    import hy
    from hy.compiler import hy_compile
    from hy.reader import read_many
    from hy.errors import HyLanguageError

    ctlog = []
    mod = types.ModuleType("vfstage_%d" % id(ctlog))

    def CT(i):
        ctlog.append(i)
        return 100 + i

    mod.CT = CT
    try:
        tree = hy.models.Expression([hy.models.Symbol("do")] + list(read_many(text)))
        m, e = hy_compile(tree, mod, root=ast.Module, get_expr=True, source=text)
        c1 = compile(m, "<stage>", "exec")
        c2 = compile(e, "<stage>", "eval")
    except (HyLanguageError, SyntaxError) as ex:
        return ("compile-error", type(ex).__name__, str(ex)[:200]), ctlog
    # "loading from bytecode": the same code objects after a marshal round trip
    d1 = marshal.loads(marshal.dumps(c1))
    d2 = marshal.loads(marshal.dumps(c2))
    return ("ok", c1, c2, m, e, d1, d2), list(ctlog)


def staged_agree(pc, sk, expected_ct, vals, why=None):
    if why is None and skel.EXPLAIN[0]:
        del skel.LAST_WHY[:]
        why = skel.LAST_WHY
    prog, ctlog = pc
    if prog[0] != "ok":
        if why is not None:
            why.append("rejected: %r" % (prog[1:3],))
        return False
    if list(ctlog) != list(expected_ct):
        if why is not None:
            why.append("compile-time log %r, expected %r" % (ctlog, expected_ct))
        return False
    # run time: CT at run time logs site 100+i (eval-and-compile bodies run again)
    vals2 = list(vals) + [("CT", ("N", None))]
    if not _agree_rt(prog[:5], sk, vals, why):
        return False
    # from bytecode
    if not _agree_rt(("ok", prog[5], prog[6], prog[3], prog[4]), sk, vals, why):
        if why is not None:
            why.append("(after marshal round trip)")
        return False
    return True


class _CTEnv:
    pass


def _agree_rt(prog, sk, vals, why):
    # inject CT into both environments through skel.fill_env hook
    old = skel.fill_env

    def fill(g, E, CMf, vs):
        old(g, E, CMf, vs)

        def CT(i):
            E(100 + i)
            return 100 + i

        g["CT"] = CT

    skel.fill_env = fill
    try:
        return skel.agree(prog, sk, vals, why=why)
    finally:
        skel.fill_env = old


def skeletons(tier):
    out = []
    names = list(STAGES)
    n = 0
    for a in names:
        for b in (names if tier == "thorough" else ["ewc", "domac"]):
            sa = STAGES[a](1)
            sb = STAGES[b](3)
            for pname, sk in placements(sa, sb):
                uses_b = pname in ("if", "let", "if-true", "if-false", "if-none", "cond-true")
                if not uses_b and b != "ewc":
                    continue
                if pname == "top" and a == "domac-str":
                    continue  # a string as the first statement of a module is its docstring (Python's rule), which binds __doc__
                n += 1
                out.append(("%s/%s%s" % (pname, a, ("+" + b) if uses_b else ""), sk))
    return out


def spec(tier, seed):
    obs = []
    for n, (name, sk) in enumerate(skeletons(tier)):
        fn = "h%d" % n
        text = skel.render(sk)
        info = skel.scan(sk)
        params, vals, pre = [], [], []
        for i in sorted(info["v"]):
            params.append("t%d: bool" % i)
            vals.append('("v%d", ("V", %d, t%d))' % (i, i, i))
        for i in sorted(info["xs"]):
            params.append("xs%d: List[int]" % i)
            vals.append('("xs%d", ("L", xs%d))' % (i, i))
            pre.append("len(xs%d) <= 2" % i)
        L = ["PC_%s = _compile_ct(%r)" % (fn, text), "S_%s = _sk.norm(%r)" % (fn, sk),
             "def %s(%s) -> bool:" % (fn, ", ".join(params)), '    """']
        L += ["    pre: " + p for p in pre]
        L += ["    post: _", '    """', "    return _staged_agree(PC_%s, S_%s, %r, [%s])" % (fn, fn, ct_sites(sk), ", ".join(vals))]
        obs.append(Ob(fn, "\n".join(L), sample=name + "  " + text + "   expected compile-time log " + repr(ct_sites(sk)), group=name.split("/")[0]))
    sk = placements(STAGES["eac"](1), STAGES["ewc"](3))[2][1]
    tw = "\n".join(["PC_twin0 = _compile_ct(%r)" % skel.render(sk), "S_twin0 = _sk.norm(%r)" % (sk,), "def twin0(t0: bool) -> bool:", '    """', "    post: _", '    """',
                    "    _staged_agree(PC_twin0, S_twin0, %r, [('v0', ('V', 0, t0)), ('v9', ('V', 9, True))])" % (ct_sites(sk),), "    return False"])
    obs.append(Ob("twin0", tw, twin=True, group="twin"))
    return {
        "preamble": PREAMBLE,
        "obligations": obs,
        "level": "translation_validation",
        "timeout": 90.0,
        "path_timeout": 30.0,
        "batch": 12,
        "grade": "S for the run-time part; the compile-time log is concrete (input independent)",
        "functions_encoded": [
            "hy.core.result_macros.compile_eval_and_compile / eval-when-compile / do-mac",
            "hy.compiler.hy_eval (compile-time evaluation), HyASTCompiler (compiling the do-mac result)",
        ],
        "bounds": "staging forms {eval-when-compile (1-2 body forms), eval-and-compile (constant result, setv+read), do-mac returning a quoted call / quoted do with setv / a falsy constant (0, "", False, [], (- 3 3))} in 17 placements "
                  "(top level, value position, both if branches, when, branches of if/when/cond with a literal True/False/None condition, function called twice / never, for and lfor bodies, call argument, nested fn, try, let binding); run-time inputs "
                  "(truthiness, list) symbolic; compile-time log compared with the expected once-per-form log; the same code objects re-checked after a marshal round trip",
        "outside": "staging forms nested inside staging forms; compile-time effects other than calls to the recorder; importlib's .pyc handling (see C15)",
        "stubs": ["crosshair.util.getsourcelines wrapper for .hy-defined callees"],
        "assumptions": ["oracle = vf/refsem.py with eval-when-compile => None/no effect, eval-and-compile => do, do-mac => the quoted form it returns",
                        "'loading from bytecode' is modelled as marshal.loads(marshal.dumps(code)) executed in a fresh namespace"],
    }


def _v9_patch():
    pass


MANIFEST = {
    "engine": "B",
    "level": "translation_validation",
    "technique": "CrossHair/z3 symbolic execution of real-compiler output (and its marshal round trip) vs reference semantics; compile-time effect log compared concretely",
    "text": "Each staging form in each placement is compiled by the real compiler with a compile-time recorder in the module; the recorder's log must show each body exactly once, and the "
            "code object (also after marshal.dumps/loads) must behave, for all symbolic run-time inputs, like the reference semantics: nothing for eval-when-compile, the body again for "
            "eval-and-compile, the returned code for do-mac.",
    "note": "Bounded by the placement/stage lists. Trusted: CPython, marshal, CrossHair, z3, vf/refsem.py.",
}
