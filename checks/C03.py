"""C03: operator macros vs hy.pyops functions vs the documented Python expansion.

Three-way differential per operator x arity with symbolic operands:
  (a) the macro form, compiled by the real compiler;
  (b) the documented expansion *as Python text* (built from the operator's own
      docstring in hy.pyops: nullary/unary forms, `a1 OP a2 OP ... an`), parsed
      by CPython, so fold direction and chaining come from Python's grammar;
  (c) the same-named hy.pyops function.
"""
import re

from vf.xh import Ob

PREAMBLE = '''\
import sys, types
from typing import List
from vf import skel as _sk
from checks.C03 import three_way, aug_way, star_way, M, mk_exp
'''

ARITH = ["+", "-", "*", "/", "//", "%", "**", "@", "<<", ">>", "&", "|", "^"]
CMP = ["=", "!=", "<", "<=", ">", ">=", "is", "is-not", "in", "not-in"]
UNARY = ["bnot", "not"]


class M:
    """matmul-capable value"""

    def __init__(self, t):
        self.t = t

    def __matmul__(self, o):
        if not isinstance(o, M):
            return NotImplemented
        return M(("@", self.t, o.t))

    def __eq__(self, o):
        return isinstance(o, M) and self.t == o.t

    def __hash__(self):
        return hash(self.t)

    def __repr__(self):
        return "M(%r)" % (self.t,)


def doc_rules(op):
    """Parse the docstring of hy.pyops.<op> -> dict(nullary, unary, pyop, binary, nary, agg)."""
    import hy
    import hy.pyops

    f = getattr(hy.pyops, hy.mangle(op))
    doc = f.__doc__ if isinstance(f.__doc__, str) else ""
    if op == "not":
        return {"unary": "not x", "pyop": None, "binary": False, "nary": False, "agg": None, "nullary": None}
    d = {"nullary": None, "unary": None, "pyop": None, "binary": False, "nary": False, "agg": None}
    for line in doc.splitlines():
        m = re.match(r"- ``\((\S+)\)`` → ``(.*)``", line)
        if m:
            d["nullary"] = m.group(2)
        m = re.match(r"- ``\((\S+) x\)`` → ``(.*)``", line)
        if m:
            d["unary"] = m.group(2)
        m = re.match(r"- ``\((\S+) x y\)`` → ``x (.*) y``", line)
        if m:
            d["binary"] = True
            d["pyop"] = m.group(2)
        m = re.match(r"- ``\((\S+) a1 a2 … an\)`` → ``a1 (.*) a2 (.*) … (.*) an``", line)
        if m:
            d["nary"] = True
            d["pyop"] = m.group(2)
        m = re.search(r"Aggregator for augmented assignment: :hy:func:`(\S+) <", line)
        if m:
            d["agg"] = m.group(1)
    return d


def expansion(op, names, rules=None):
    """Documented Python expansion text for (op *names), or None if no form is documented."""
    d = rules or doc_rules(op)
    n = len(names)
    if n == 0:
        return d["nullary"]
    if n == 1:
        return d["unary"].replace("x", names[0]) if d["unary"] is not None else None
    if n == 2 and d["binary"]:
        return "(%s %s %s)" % (names[0], d["pyop"], names[1])
    if n >= 3 and d["nary"]:
        return "(" + (" %s " % d["pyop"]).join(names) + ")"
    return None


def mk_exp(text):
    return compile(text, "<pyexp>", "eval")


def _outcome(f):
    try:
        return ("v", f())
    except Exception as e:
        return ("x", type(e).__name__)


def _same(a, b):
    if a[0] != b[0]:
        return False
    if a[0] == "x":
        return a[1] == b[1]
    x, y = a[1], b[1]
    if isinstance(x, bool) != isinstance(y, bool):
        return False
    if isinstance(x, float) != isinstance(y, float):
        return False
    return x == y


def three_way(prog, pyexp, opname, vals, why=None, legs="abc"):
    """macro form == python text == pyops function, on the same operand values"""
    import hy.pyops
    import hy

    if all(isinstance(v, int) and not isinstance(v, bool) for _, v in vals):
        vals = conc_vals(opname, vals)
    elif ranges(opname, len(vals)):
        # mixed-type case: the int operands are boxed to -2..3 by the precondition
        vals = [(k, conc(v, (-2, 3)) if isinstance(v, int) and not isinstance(v, bool) else v) for k, v in vals]
    g1 = {}
    g2 = {}
    for k, v in vals:
        g1[k] = v
        g2[k] = v
    if prog[0] != "ok":
        if why is not None:
            why.append("macro form rejected: %r" % (prog,))
        return False
    a = _outcome(lambda: _sk_run(prog, g1))
    b = _outcome(lambda: types_fn(pyexp, g2))
    f = getattr(hy.pyops, hy.mangle(opname))
    args = [v for _, v in vals]
    # legs="ab": the function form is documented not to short-circuit, so with an
    # operand that makes a *later* link raise it may raise where the chain stops early
    c = _outcome(lambda: f(*args)) if "c" in legs else b
    ok = _same(a, b) and _same(b, c)
    if not ok and why is not None:
        why.append("macro=%r python=%r pyops=%r" % (a, b, c))
    return ok


def _sk_run(prog, g):
    from vf import skel

    return skel.run_code(prog, g)


def types_fn(code, g):
    import types

    return types.FunctionType(code, g)()


def aug_way(prog, pycode, vals, why=None, op=None):
    """(do (setv a x0) (op= a x1 ...) a)  vs  a = x0; a op= <documented aggregate>"""
    if op is not None:
        vals = conc_vals(op, vals)
    g1 = {}
    g2 = {}
    for k, v in vals:
        g1[k] = v
        g2[k] = v
    if prog[0] != "ok":
        return False

    def py():
        types_fn(pycode, g2)
        return g2["a"]

    a = _outcome(lambda: _sk_run(prog, g1))
    b = _outcome(py)
    ok = _same(a, b)
    if not ok and why is not None:
        why.append("macro=%r python=%r" % (a, b))
    return ok


def star_way(prog, opname, x0s, xs, pyexps, why=None):
    """(op x0.. #* xs) falls back to the pyops function; also equals the documented expansion of that arity"""
    import hy
    import hy.pyops

    if prog[0] != "ok":
        return False
    rr = ranges(opname, len(x0s) + 3)
    if rr:
        x0s = [conc(v, rr[i]) for i, v in enumerate(x0s)]
        xs = [conc(v, rr[-1]) for v in xs]
    g1 = {}
    for i, v in enumerate(x0s):
        g1["x%d" % i] = v
    g1["xs0"] = list(xs)
    f = getattr(hy.pyops, hy.mangle(opname))
    a = _outcome(lambda: _sk_run(prog, g1))
    args = list(x0s) + list(xs)
    c = _outcome(lambda: f(*args))
    ok = _same(a, c)
    n = len(args)
    if ok and n < len(pyexps) and pyexps[n] is not None:
        g2 = {}
        for i, v in enumerate(args):
            g2["a%d" % i] = v
        b = _outcome(lambda: types_fn(pyexps[n], g2))
        ok = _same(a, b)
        if not ok and why is not None:
            why.append("macro=%r python=%r" % (a, b))
    elif not ok and why is not None:
        why.append("macro=%r pyops=%r" % (a, c))
    return ok


BOX = {
    "<<": [None, (0, 8)], ">>": [None, (0, 8)],
    "**": [(-3, 3), (0, 3)],
    "&": [(-4, 7)], "|": [(-4, 7)], "^": [(-4, 7)], "bnot": [(-4, 7)],
}


SYM_CAND = [(-4, 7), (-3, 4), (-2, 3), (-1, 2), (0, 2), (0, 1)]
SHIFT_CAND = [(0, 8), (0, 4), (0, 2), (0, 1)]
BUDGET = 450  # realised operand combinations per obligation (these operators are realised by CrossHair)


def _pick(cands, n, budget):
    for lo, hi in cands:
        if (hi - lo + 1) ** n <= budget:
            return (lo, hi)
    return cands[-1]


def ranges(op, n):
    """Per-operand boxes for operators whose operands CrossHair realises (grade R)."""
    if n == 0:
        return []
    if op in ("&", "|", "^", "bnot"):
        return [_pick(SYM_CAND, n, BUDGET)] * n
    if op in ("<<", ">>"):
        first = (-2, 3)
        rest = _pick(SHIFT_CAND, max(n - 1, 1), BUDGET // 6)
        return [first] + [rest] * (n - 1)
    if op == "**":
        first = (-3, 3) if n <= 3 else (-2, 2)
        # towers: 3**3**3 is already 7.6e12, so exponents stop at 2 beyond two operands
        rest = (0, 3) if n <= 2 else _pick([(0, 2), (0, 1)], max(n - 1, 1), BUDGET // (first[1] - first[0] + 1))
        return [first] + [rest] * (n - 1)
    if op == "/":
        return [_pick([(-6, 6), (-4, 4), (-3, 3), (-2, 2), (-1, 2)], n, BUDGET)] * n
    return None


def box_pre(op, names):
    r = ranges(op, len(names))
    if not r:
        return []
    return ["%d <= %s <= %d" % (lo, nm, hi) for (lo, hi), nm in zip(r, names)]


def conc(x, r):
    """Make a boxed symbolic int concrete by explicit forks (one path per value):
    bitwise, shift, power and true-division operands are realised by CrossHair anyway;
    doing it here keeps the path tree equal to the stated box."""
    if r is None or not isinstance(r, tuple):
        return x
    for c in range(r[0], r[1] + 1):
        if x == c:
            return c
    return x


def conc_vals(op, vals):
    r = ranges(op, len(vals))
    if not r:
        return vals
    return [(k, conc(v, rr)) for (k, v), rr in zip(vals, r)]


def spec(tier, seed):
    obs = []
    extra_cases = []  # concrete arity-error cases, decided without solver (reported as such)
    maxn = 4 if tier == "quick" else 6
    n_id = [0]

    def add(src, sample, group, twin=False, name=None):
        obs.append(Ob(name, src, sample=sample, group=group, twin=twin))

    for op in ARITH + CMP + UNARY:
        rules = doc_rules(op)
        for n in range(0, maxn + 1):
            names = ["x%d" % i for i in range(n)]
            exp = expansion(op, names, rules)
            hytext = "(%s %s)" % (op, " ".join(names)) if n else "(%s)" % op
            if exp is None:
                extra_cases.append((op, n, hytext))
                continue
            if op in ("**",) and n > 4:
                continue
            kinds = [("int", "int")]
            if op in ("+", "*", "-", "<", "=", "!=", "&", "|", "^", "not") and n in (1, 2, 3):
                kinds.append(("bool", "bool"))
            if op in ("is", "is-not", "@"):
                kinds = [("conc", None)]
            if op in ("in", "not-in"):
                kinds = [("in", None)]
            for kname, ty in kinds:
                fn = "h%d" % n_id[0]
                n_id[0] += 1
                L = ["P_%s = _sk.compile_prog(%r)" % (fn, hytext), "X_%s = mk_exp(%r)" % (fn, exp)]
                if kname in ("int", "bool"):
                    params = ", ".join("%s: %s" % (nm, ty) for nm in names)
                    pre = box_pre(op, names) if kname == "int" else []
                    L.append("def %s(%s) -> bool:" % (fn, params))
                    L.append('    """')
                    for p in pre:
                        L.append("    pre: " + p)
                    L.append("    post: _")
                    L.append('    """')
                    L.append("    return three_way(P_%s, X_%s, %r, [%s])" % (
                        fn, fn, op, ", ".join('("%s", %s)' % (nm, nm) for nm in names)))
                elif kname == "conc":
                    # identity / matmul: concrete representatives, selector symbolic
                    L.append("def %s(sel: int) -> bool:" % fn)
                    L.append('    """')
                    L.append("    pre: 0 <= sel < %d" % (2 ** max(n, 1)))
                    L.append("    post: _")
                    L.append('    """')
                    if op == "@":
                        L.append("    objs = [M(1), M(2)]")
                    else:
                        L.append("    objs = [_sk.V(0, True), _sk.V(1, True)]")
                    L.append("    vals = []")
                    for i, nm in enumerate(names):
                        L.append("    vals.append((%r, objs[(sel >> %d) & 1]))" % (nm, i))
                    L.append("    return three_way(P_%s, X_%s, %r, vals)" % (fn, fn, op))
                else:  # in / not-in: later operands are containers
                    if n == 2:
                        L.append("def %s(x0: int, x1: List[int]) -> bool:" % fn)
                        L.append('    """')
                        L.append("    pre: len(x1) <= 3")
                        L.append("    post: _")
                        L.append('    """')
                        L.append("    return three_way(P_%s, X_%s, %r, [('x0', x0), ('x1', x1)])" % (fn, fn, op))
                    elif n == 3:
                        # chain: x0 in x1 in x2 ; x2 is a list of lists
                        L.append("def %s(x0: int, x1: List[int], x2: List[List[int]]) -> bool:" % fn)
                        L.append('    """')
                        L.append("    pre: len(x1) <= 2 and len(x2) <= 2 and all(len(e) <= 2 for e in x2)")
                        L.append("    post: _")
                        L.append('    """')
                        L.append("    return three_way(P_%s, X_%s, %r, [('x0', x0), ('x1', x1), ('x2', x2)])" % (fn, fn, op))
                    else:
                        continue
                add("\n".join(L), "%s  ==  %s  ==  hy.pyops.%s(...)  [%s]" % (hytext, exp, op, kname), "op/" + op, name=fn)
        # mixed-type operands (TypeError / concatenation / repetition): one concrete odd operand
        if op in ARITH + ["<", "="] and op not in ("@",):
            for n in (2, 3):
                names = ["x%d" % i for i in range(n)]
                exp = expansion(op, names, rules)
                if exp is None:
                    continue
                for pos in range(n):
                    for odd_name, odd in (("str", "'ab'"), ("list", "[1]"), ("none", "None"), ("float", "0.5")):
                        if tier == "quick" and (n == 3 and odd_name in ("none", "float")):
                            continue
                        if odd_name == "float" and op not in ("+", "-", "*", "<", "="):
                            continue  # float arithmetic beyond + - * is outside CrossHair's exact model
                        fn = "h%d" % n_id[0]
                        n_id[0] += 1
                        hytext = "(%s %s)" % (op, " ".join(names))
                        params = ", ".join("%s: int" % nm for i, nm in enumerate(names) if i != pos)
                        pre = ["-2 <= %s <= 3" % nm for i, nm in enumerate(names) if i != pos]
                        L = ["P_%s = _sk.compile_prog(%r)" % (fn, hytext), "X_%s = mk_exp(%r)" % (fn, exp),
                             "def %s(%s) -> bool:" % (fn, params), '    """']
                        L += ["    pre: " + p for p in pre]
                        L += ["    post: _", '    """']
                        legs = ", legs='ab'" if (op in CMP and n >= 3) else ""
                        L.append("    return three_way(P_%s, X_%s, %r, [%s]%s)" % (
                            fn, fn, op, ", ".join('("%s", %s)' % (nm, odd if i == pos else nm) for i, nm in enumerate(names)), legs))
                        add("\n".join(L), "%s with %s = %s" % (hytext, names[pos], odd), "mixed/" + op, name=fn)
        # concrete operands for which the grouping of an n-ary form matters (sets, inexact floats, strings/lists):
        # a - b - c is a left fold, not a - (b + c)
        pools = {"-": ["{1, 2, 3}, {1}, {2}", "0.3, 0.1, 0.2", "1e16, 1.0, 1.0", "{1, 2}, {2}, {1}, {5}", "0.1, 0.2, 0.3, 0.4"],
                 "+": ["0.1, 0.2, 0.3", "1e16, 1.0, -1e16", "'a', 'b', 'c'", "[1], [2], [3], [4]"],
                 "*": ["0.1, 0.2, 0.3", "'ab', 2, 3", "[1], 2, 2", "1e200, 1e200, 1e-200"],
                 "/": ["1.0, 3.0, 7.0", "0.1, 0.3, 0.7, 2.0"], "//": ["7.5, 2.0, 1.5"], "%": ["7.5, 2.0, 1.5"],
                 "|": ["{1}, {2}, {3}", "5, 2, 8"], "&": ["{1, 2}, {2, 3}, {2}", "7, 6, 12"], "^": ["{1, 2}, {2, 3}, {3, 4}", "7, 6, 12"],
                 "**": ["2.0, 0.5, 2.0"], "<<": ["1, 2, 3"], ">>": ["1024, 1, 2, 2"]}
        for tup in pools.get(op, []):
            n = len(eval("(" + tup + ",)"))
            names = ["x%d" % i for i in range(n)]
            exp = expansion(op, names, rules)
            if exp is None:
                continue
            fn = "h%d" % n_id[0]
            n_id[0] += 1
            hytext = "(%s %s)" % (op, " ".join(names))
            L = ["P_%s = _sk.compile_prog(%r)" % (fn, hytext), "X_%s = mk_exp(%r)" % (fn, exp), "V_%s = (%s,)" % (fn, tup),
                 "def %s(x: int) -> bool:" % fn, '    """', "    post: _", '    """',
                 "    return three_way(P_%s, X_%s, %r, [%s])" % (fn, fn, op, ", ".join('("%s", V_%s[%d])' % (nm, fn, i) for i, nm in enumerate(names)))]
            add("\n".join(L), "%s with concrete operands %s" % (hytext, tup), "grouping/" + op, name=fn)
        # augmented assignment
        if op in ARITH:
            for n in range(1, (4 if tier == "quick" else 5) + 1):
                names = ["x%d" % i for i in range(n + 1)]
                extras = names[1:]
                if n == 1:
                    rhs = extras[0]
                else:
                    agg = rules["agg"] or op
                    rhs = expansion(agg, extras)
                    if rhs is None or not rules["nary"]:
                        # documented: operators without an n-ary form take exactly two arguments
                        extra_cases.append((op + "=", n + 1, "(%s= a %s)" % (op, " ".join(extras))))
                        continue
                if op == "@":
                    continue
                hytext = "(do (setv a x0) (%s= a %s) a)" % (op, " ".join(extras))
                pytext = "a = x0\na %s= %s\n" % (rules["pyop"] or op, rhs)
                fn = "h%d" % n_id[0]
                n_id[0] += 1
                box = box_pre(op, names)
                L = ["P_%s = _sk.compile_prog(%r)" % (fn, hytext), "X_%s = compile(%r, '<pyaug>', 'exec')" % (fn, pytext),
                     "def %s(%s) -> bool:" % (fn, ", ".join("%s: int" % nm for nm in names)), '    """']
                L += ["    pre: " + p for p in box]
                L += ["    post: _", '    """']
                L.append("    return aug_way(P_%s, X_%s, [%s], op=%r)" % (fn, fn, ", ".join('("%s", %s)' % (nm, nm) for nm in names), op))
                add("\n".join(L), "%s  ==  %s" % (hytext, pytext.replace("\n", "; ")), "aug/" + op, name=fn)
        # #* fallback
        if op in ARITH + CMP and op not in ("@", "is", "is-not", "in", "not-in"):
            for lead in (0, 1, 2):
                fn = "h%d" % n_id[0]
                n_id[0] += 1
                names = ["x%d" % i for i in range(lead)]
                hytext = "(%s %s #* xs0)" % (op, " ".join(names))
                exps = []
                for m in range(0, 6):
                    e = expansion(op, ["a%d" % i for i in range(m)], rules)
                    exps.append("mk_exp(%r)" % e if e is not None else "None")
                box = []
                rr = ranges(op, lead + 3)
                if rr:
                    box = ["%d <= %s <= %d" % (rr[i][0], nm, rr[i][1]) for i, nm in enumerate(names)] + [
                        "all(%d <= e <= %d for e in xs0)" % rr[-1]]
                L = ["P_%s = _sk.compile_prog(%r)" % (fn, hytext), "XS_%s = [%s]" % (fn, ", ".join(exps)),
                     "def %s(%s) -> bool:" % (fn, ", ".join(["%s: int" % nm for nm in names] + ["xs0: List[int]"])), '    """',
                     "    pre: len(xs0) <= 3"]
                L += ["    pre: " + p for p in box]
                L += ["    post: _", '    """']
                L.append("    return star_way(P_%s, %r, [%s], xs0, XS_%s)" % (fn, op, ", ".join(names), fn))
                add("\n".join(L), "%s  ==  hy.pyops.%s(%s*xs0)  (len(xs0) <= 3)" % (hytext, op, "".join(nm + ", " for nm in names)),
                    "star/" + op, name=fn)
    # vacuity twin
    tw = "\n".join([
        "P_twin0 = _sk.compile_prog('(- x0 x1 x2)')", "X_twin0 = mk_exp('(x0 - x1 - x2)')",
        "def twin0(x0: int, x1: int, x2: int) -> bool:", '    """', "    post: _", '    """',
        "    three_way(P_twin0, X_twin0, '-', [('x0', x0), ('x1', x1), ('x2', x2)])", "    return False"])
    obs.append(Ob("twin0", tw, twin=True, group="twin"))

    def extra(tier_, seed_, workdir):
        """Arities with no documented form: the macro (HySyntaxError at compile time) and the pyops function (TypeError)
        must agree on rejecting, or agree on the value if both accept (an undocumented but consistent arity)."""
        import hy
        import hy.pyops
        from vf import skel

        recs = []
        for op, n, hytext in extra_cases:
            prog = skel.compile_prog(hytext if not op.endswith("=") or op in ("=", "!=", "<=", ">=") else hytext)
            rejected = prog[0] == "compile-error" and prog[1] in ("HySyntaxError", "HyMacroExpansionError")
            ok = rejected
            detail = "macro: %r" % (prog[:3] if prog[0] != "ok" else "accepted",)
            if not (op.endswith("=") and op not in ("=", "!=", "<=", ">=")):
                f = getattr(hy.pyops, hy.mangle(op))
                args = [M(i) for i in range(n)] if op == "@" else [i + 2 for i in range(n)]
                try:
                    fv = ("v", f(*args))
                except TypeError:
                    fv = ("x", "TypeError")
                if rejected:
                    ok = fv[0] == "x"
                    detail += "; pyops: %r" % (fv,)
                else:
                    g = {}
                    for i, a_ in enumerate(args):
                        g["x%d" % i] = a_
                    mv = _outcome(lambda: skel.run_code(prog, g)) if prog[0] == "ok" else ("x", "?")
                    ok = prog[0] == "ok" and _same(mv, fv)
                    detail += "; macro value %r pyops %r (undocumented arity, consistent)" % (mv, fv)
            recs.append({"name": "arity:%s/%d" % (op, n), "verdict": "CONFIRMED" if ok else "POST_FAIL",
                         "reproduces": None if ok else True, "sample": hytext + " must be an arity error", "cex": {"args": [], "kwargs": {}},
                         "replay_detail": detail, "paths": 1, "queries": 0, "solver_s": 0.0, "group": "arity", "twin": False})
        return recs

    return {
        "preamble": PREAMBLE,
        "obligations": obs,
        "extra": extra,
        "level": "translation_validation",
        "timeout": 60.0,
        "path_timeout": 20.0,
        "batch": 10,
        "grade": "S (unbounded ints for + - * / // % and comparisons; boxed for shifts, **, bitwise: grade R there)",
        "functions_encoded": [
            "hy.core.result_macros.compile_maths_expression, compile_compare_op_expression, compile_unary_operator, "
            "compile_augassign_expression (m_ops aggregators)",
            "hy.macros.pattern_macro shadow fallback for #*",
            "every defop in hy/pyops.hy (Hy-compiled, traced)",
        ],
        "bounds": "operators %s; arity 0..%d; operands: unbounded symbolic ints (shifts boxed 0..8, ** base -3..3 exponent 0..3, bitwise -4..7), "
                  "symbolic bools for + - * < = != & | ^ not at arity 1-3, one concrete odd operand (str, list, None, float) at each position for arity 2-3; "
                  "augmented forms with 1..%d extra arguments; #* with 0-2 leading operands and a symbolic list of length <= 3"
                  % (" ".join(ARITH + CMP + UNARY), maxn, 4 if tier == "quick" else 5),
        "outside": "floats as symbolic values (CrossHair's float model is not IEEE-exact), sets, user classes other than one matmul representative, "
                   "arity > %d, chained comparison with effectful operands (C01)" % maxn,
        "stubs": ["crosshair.util.getsourcelines wrapper for .hy-defined callees"],
        "assumptions": [
            "documented expansion is read from each hy.pyops function's docstring at run time (nullary/unary/binary/n-ary lines and the "
            "'Aggregator for augmented assignment' line; default aggregator = the operator itself, as the module docstring says) and parsed by CPython",
        ],
    }


def finding_key(ob, rec):
    return "%s %s" % (ob.sample if ob else rec.get("sample"), "")


MANIFEST = {
    "engine": "B",
    "level": "translation_validation",
    "technique": "CrossHair/z3 three-way differential: real-compiler output vs CPython-parsed documented expansion vs hy.pyops function, symbolic operands",
    "text": "Per operator and arity the macro form (real compiler), the docstring's Python expansion (parsed by CPython) and the hy.pyops function are evaluated on the "
            "same solver-chosen operands and must give the same value or exception type; augmented forms against 'target op= documented aggregate'; #* forms against the "
            "function. Unbounded ints where CrossHair confirms, stated boxes otherwise.",
    "note": "Trusted: CPython operator semantics, the hy.pyops docstrings as the specification, CrossHair, z3.",
}
