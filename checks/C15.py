"""C15: loading a Hy module from cached bytecode behaves like compiling it (partial claim).

(a) _could_be_hy_src(path) <=> the extension is not one of Python's other source suffixes: CrossHair over a string box.
(b) module values and macro tables after a source import vs after a second import from the .pyc (real importlib, temp dir),
    and after executing the marshalled code object in a fresh module: enumerated module sources (grade D).
NOT applicable part: importlib's own pyc validation logic (mtime/size/hash invalidation) is C/OS code that is not encoded."""
import os

from vf import strsym
from vf.xh import Ob

PREAMBLE = '''\
import sys
from vf import skel as _sk
from checks.C15 import path_ok, PALPH
'''

PALPH = "a./pyhwc-_"


def _path_ok(p):
    import importlib.machinery

    from hy.importer import _could_be_hy_src

    base = p.rsplit("/", 1)[-1]
    # reference: os.path.splitext semantics written independently: leading dots of the basename are not an extension separator
    stripped = base.lstrip(".")
    ext = ""
    if "." in stripped:
        ext = "." + stripped.rsplit(".", 1)[1]
    others = [s for s in importlib.machinery.SOURCE_SUFFIXES if s != ".hy"]
    want = ext not in others
    got = _could_be_hy_src(p)
    if got != want:
        return "_could_be_hy_src(%r) = %r, extension %r, other source suffixes %r" % (p, got, ext, others)
    return None


def path_ok(p, why=None):
    from vf import skel

    if why is None and skel.EXPLAIN[0]:
        del skel.LAST_WHY[:]
        why = skel.LAST_WHY
    r = strsym.untraced(_path_ok, p)
    if r is not None and why is not None:
        why.append(r)
    return r is None


MACRO_MODULE = '''
(defmacro m1 [] 11)
(defmacro m2 [x] `(+ ~x 12))
(defmacro _private [] 13)
(defmacro bang! [] 14)
(defreader rd (.parse-one-form &reader) 15)
'''
MACRO_MODULE_EXPORT = '''
(defmacro m1 [] 21)
(defmacro m2 [] 22)
(defmacro m3 [] 23)
(setv _hy_export_macros ["m2" "m3"])
'''

MODULES = [
    ("plain", "(setv a 1)\n(defn f [x] (+ x a))\n(setv b (f 2) c [a b \"s\"])\n(defclass K [] (setv z 9))\n"),
    ("own-macros", "(defmacro mm [x] `(* ~x 2))\n(setv v (mm 21))\n(defn g [] (mm 4))\n(setv w (g))\n"),
    ("require-bare", "(require vfc15mac)\n(setv v (vfc15mac.m1) w (vfc15mac.m2 1))\n"),
    ("require-as", "(require vfc15mac :as P)\n(setv v (P.m1) w (P.bang!))\n"),
    ("require-names", "(require vfc15mac [m1 m2 :as z])\n(setv v (m1) w (z 5))\n"),
    ("require-dup-alias", "(require vfc15mac [m1 :as one  m2  m1 :as uno  m2 :as deux])\n(setv v [(one) (uno) (m2 1) (deux 2)])\n"),
    ("require-submodules", "(require vfc15pkg [sub :as T other])\n(setv v [(T.add-one 1) (T.twice 4) (other.neg 3)])\n(defn late [] (hy.eval '(T.twice 5)))\n(setv w (late))\n"),
    ("require-star", "(require vfc15mac *)\n(setv v [(m1) (m2 0) (bang!)])\n"),
    ("require-star-export", "(require vfc15exp *)\n(setv v [(m2) (m3)])\n"),
    ("require-private", "(require vfc15mac [_private])\n(setv v (_private))\n"),
    ("require-readers", "(require vfc15mac :readers [rd])\n(setv v #rd x)\n"),
    ("require-local", "(defn f [] (require vfc15mac [m1]) (m1))\n(setv v (f))\n"),
    ("require-in-class", "(defclass K [] (require vfc15mac [m2]) (setv z (m2 1)))\n(setv v K.z)\n"),
    ("macro-using-required", "(require vfc15mac [m2])\n(defmacro dbl [x] `(m2 (m2 ~x)))\n(setv v (dbl 0))\n"),
    ("shebang-and-docstring", "#!/usr/bin/env hy\n\"module doc\"\n(setv v __doc__)\n"),
    ("let-gensym", "(setv v (let [a 1 b 2] (lfor i [a b] :do (setv q i) (* q 2))))\n"),
]


def _import_twice(name, src, workdir, ext=".hy"):
    """Real importlib: first import compiles and writes the .pyc, second import (fresh module object) loads the cache."""
    import importlib
    import io
    import contextlib
    import sys

    import hy  # noqa

    path = os.path.join(workdir, name + ext)
    with open(path, "w") as f:
        f.write(src)
    results = []
    for attempt in (1, 2):
        importlib.invalidate_caches()
        for k in [k for k in sys.modules if k == name]:
            del sys.modules[k]
        os.environ["HY_MESSAGE_WHEN_COMPILING"] = "1"
        err = io.StringIO()
        try:
            with contextlib.redirect_stderr(err):
                m = importlib.import_module(name)
        finally:
            os.environ.pop("HY_MESSAGE_WHEN_COMPILING", None)
        compiled = ("Compiling" in err.getvalue())
        pub = {k: repr(v) if not callable(v) else "<callable>" for k, v in vars(m).items() if not k.startswith("_") and k != "hy" and not isinstance(v, type(sys))}
        macros = sorted(getattr(m, "_hy_macros", {}).keys())
        readers = sorted(getattr(m, "_hy_reader_macros", {}).keys())
        results.append((compiled, pub, macros, readers, getattr(m, "__cached__", None)))
    return results


def _fresh_exec(name, src):
    """Compile once, then run marshal.loads(marshal.dumps(code)) in a fresh module that has no compile-time state."""
    import marshal
    import sys
    import types

    import hy
    from hy.compiler import hy_compile
    from hy.reader import read_many

    def run(code, modname):
        m = types.ModuleType(modname)
        sys.modules[modname] = m
        try:
            exec(code, m.__dict__)
        finally:
            del sys.modules[modname]
        pub = {k: repr(v) if not callable(v) else "<callable>" for k, v in vars(m).items() if not k.startswith("_") and k != "hy" and not isinstance(v, type(sys))}
        return pub, sorted(getattr(m, "_hy_macros", {}).keys())

    modname = "vfc15fresh_" + name.replace("-", "_")
    m0 = types.ModuleType(modname)
    sys.modules[modname] = m0
    try:
        tree = hy_compile(read_many(src, skip_shebang=True), m0, source=src)
        code = compile(tree, modname, "exec")
        exec(code, m0.__dict__)
        pub0 = {k: repr(v) if not callable(v) else "<callable>" for k, v in vars(m0).items() if not k.startswith("_") and k != "hy" and not isinstance(v, type(sys))}
        mac0 = sorted(getattr(m0, "_hy_macros", {}).keys())
    finally:
        del sys.modules[modname]
    pub1, mac1 = run(marshal.loads(marshal.dumps(code)), modname)
    return (pub0, mac0), (pub1, mac1)


def spec(tier, seed):
    maxlen = 4 if tier == "quick" else 6
    obs = strsym.string_box_obs("p", "path_ok({s})", "PALPH", PALPH, maxlen, "paths", "paths starting with {first}, length <= {n} over {alph!r}")
    cands = ["a.hy", "a.py", "a.pyc", "a", "a.", ".hy", ".py", "a.b.py", "a.py.hy", "a.hy.py", "dir.py/a", "dir.py/a.hy", "a.PY", "a.pyw", "a.txt", "/x/.py", "..py", "a..py", "x/.hidden.py"]
    L = ["CANDS = %r" % cands, "def hcand(i: int) -> bool:", '    """', "    post: _", '    """', "    return path_ok(CANDS[_sk.box(i, 0, %d)])" % (len(cands) - 1)]
    obs.append(Ob("hcand", "\n".join(L), sample="hand-written paths %r" % cands, group="paths"))
    tw = "\n".join(["def twin0(i0: int) -> bool:", '    """', "    post: _", '    """', "    path_ok('a' + _sk.pick_str(PALPH, [i0]))", "    return False"])
    obs.append(Ob("twin0", tw, twin=True, group="twin"))

    def extra(tier_, seed_, workdir):
        import sys
        import tempfile
        import shutil

        recs = []
        tmp = tempfile.mkdtemp(prefix="vf-c15-")
        sys.path.insert(0, tmp)
        old_dwb = sys.dont_write_bytecode
        sys.dont_write_bytecode = False
        old_prefix = sys.pycache_prefix
        sys.pycache_prefix = os.path.join(tmp, "pyc")
        try:
            with open(os.path.join(tmp, "vfc15mac.hy"), "w") as f:
                f.write(MACRO_MODULE)
            with open(os.path.join(tmp, "vfc15exp.hy"), "w") as f:
                f.write(MACRO_MODULE_EXPORT)
            # a package without macros of its own, whose submodules hold the macros: (require pkg [sub :as S other])
            os.makedirs(os.path.join(tmp, "vfc15pkg"))
            for fn, text in (("__init__.hy", "(setv marker 1)\n"), ("sub.hy", "(defmacro add-one [x] `(+ ~x 1))\n(defmacro twice [x] `(* ~x 2))\n"),
                             ("other.hy", "(defmacro neg [x] `(- ~x))\n")):
                with open(os.path.join(tmp, "vfc15pkg", fn), "w") as f:
                    f.write(text)
            for name, src in MODULES:
                modname = "vfc15_" + name.replace("-", "_")
                problems = []
                try:
                    r1, r2 = _import_twice(modname, src, tmp)
                    if not r1[0]:
                        problems.append("first import did not compile the source")
                    if r2[0]:
                        problems.append("second import recompiled instead of loading the cache")
                    if r1[1] != r2[1]:
                        problems.append("module values differ: source %r vs cache %r" % (r1[1], r2[1]))
                    if r1[2] != r2[2]:
                        problems.append("macro tables differ: source %r vs cache %r" % (r1[2], r2[2]))
                    if r1[3] != r2[3]:
                        problems.append("reader-macro tables differ: source %r vs cache %r" % (r1[3], r2[3]))
                    (p0, m0), (p1, m1) = _fresh_exec(name, src)
                    if p0 != p1:
                        problems.append("fresh execution of the marshalled code gives values %r, compile-and-run gave %r" % (p1, p0))
                    if m0 != m1:
                        problems.append("fresh execution defines macros %r, compile-and-run %r" % (m1, m0))
                except Exception as e:
                    problems.append("raised %s: %s" % (type(e).__name__, str(e)[:200]))
                recs.append({"name": "import-twice:" + name, "verdict": "CONFIRMED" if not problems else "POST_FAIL", "reproduces": None if not problems else True,
                             "sample": "module %s: %r" % (name, src), "cex": {"args": [], "kwargs": {}}, "replay_detail": "; ".join(problems),
                             "paths": 2, "queries": 0, "solver_s": 0.0, "group": "import-twice", "twin": False, "nontrivial": True})
            # a .py-suffixed file is never compiled as Hy; other extensions are (through runhy's source check)
            from hy.importer import _could_be_hy_src

            for fn_, want in (("x.hy", True), ("x.py", False), ("x.txt", True), ("x", True)):
                ok = _could_be_hy_src(os.path.join(tmp, fn_)) == want
                recs.append({"name": "suffix:" + fn_, "verdict": "CONFIRMED" if ok else "POST_FAIL", "reproduces": None if ok else True, "sample": fn_, "cex": {"args": [], "kwargs": {}},
                             "replay_detail": "expected %r" % want, "paths": 1, "queries": 0, "solver_s": 0.0, "group": "suffix", "twin": False})
        finally:
            sys.path.remove(tmp)
            sys.dont_write_bytecode = old_dwb
            sys.pycache_prefix = old_prefix
            for k in [k for k in sys.modules if k.startswith("vfc15")]:
                del sys.modules[k]
            shutil.rmtree(tmp, ignore_errors=True)
        return recs

    return {
        "preamble": PREAMBLE, "obligations": obs, "extra": extra, "level": "exploration", "timeout": 1200.0, "path_timeout": 60.0, "batch": 2,
        "grade": "R/D: paths from folded selectors; import histories are concrete runs of the real importlib machinery in a temporary directory",
        "functions_encoded": ["hy.importer._could_be_hy_src", "hy.importer._hy_source_to_code (via importlib: source import then cached import)",
                              "hy.core.result_macros.compile_require / defmacro / defreader (the run-time code they emit)", "hy.macros.require, require_vals, enable_readers"],
        "bounds": "every path of length <= %d over %r plus %d hand-written paths; %d module sources (plain values, own macros, require bare / :as / names with aliases / submodules of a macro-less package (also one macro under two aliases) / * / with export list / "
                  "private / :readers / local / in a class, macro using a required macro, shebang + docstring, let/comprehension) each imported from source and again from the .pyc with a fresh "
                  "module object, and executed from marshalled code in a fresh module" % (maxlen, PALPH, len(cands), len(MODULES)),
        "outside": "NOT APPLICABLE part: importlib's pyc validation (mtime/size/hash, invalidation on source change) and the OS file layer are C/OS code outside any encoding here; modules with "
                   "compile-time side effects are excluded by the property itself",
        "stubs": ["a temporary directory on sys.path with its own pycache prefix, removed at the end of the run"],
        "assumptions": ["HY_MESSAGE_WHEN_COMPILING is used to observe whether an import compiled the source or loaded the cache"],
        "rule": "one evaluation = one path string or one import history; non-trivial = an obligation that splits into >= 2 paths, or an import history (two real imports)",
    }


MANIFEST = {
    "engine": "A", "level": "exploration",
    "technique": "CrossHair/z3 over a path-string box for the source-suffix rule; enumerated module sources imported twice through the real importlib (source, then .pyc) and via marshal in a fresh module",
    "text": "Partial claim. The file-kind rule is checked on every path in a bounded box against an independent extension splitter. Cache equivalence is checked on enumerated module sources by "
            "really importing them twice (the second import must come from the .pyc) and comparing values, macro and reader-macro tables, and by executing the marshalled code in a fresh "
            "module. importlib's own cache validation is not encoded (not applicable).",
    "note": "Exploration level; the import histories are concrete runs, not solver results.",
}
