"""C26: model constructors accept exactly what Hy syntax can express (differential: constructor vs real reader; grade R/D)."""
from vf.xh import Ob

PREAMBLE = '''\
import sys
from checks.C26 import sym_ok, kw_ok, bstr_ok, mk
'''

ALPH = "a1-._:#\"'()[]{};~`^,| \n\té＿/\\@+e"
BALPH = "]ab\n["
# identifier-looking strings that the reader takes for numbers (or not): longer than the box, outside its alphabet
CANDS = ["Inf", "NaN", "-Inf", "Infinity", "Inf_", "NaN__", "Infj", "InfJ", "NaNj", "NaNJ", "Inf_j", "inf", "nan", "INF", "j", "J", "_1", "1", "1j", "1e5", "e5", "0x1", "0b2",
         "1_000", "a.b", ".a", "a.", "...", "None", "True", "1+2j", "j_", "-j", "+j", "١", "²", "x²", "hyx_", "a/b", "/", "//", "#a", "a#", "&rest", "-", "->", "+1", "+a", "1a", "1.5.2"]
DALPH = "ab=]"


def mk(alph, idxs):
    """Concrete string from selector ints (explicit forks: model constructors must never see solver proxies)."""
    out = ""
    for i in idxs:
        if i < 0:
            continue
        for k in range(len(alph)):
            if i == k:
                out += alph[k]
    return out


def _read(text):
    import hy

    try:
        return list(hy.read_many(text))
    except Exception as e:
        return e


def sym_ok(s, why=None):
    import hy
    from vf import skel

    if why is None and skel.EXPLAIN[0]:
        del skel.LAST_WHY[:]
        why = skel.LAST_WHY
    if not s:
        return True
    try:
        m = hy.models.Symbol(s)
        built = True
    except ValueError:
        built = False
    except Exception as e:
        if why is not None:
            why.append("Symbol(%r) raised %s" % (s, type(e).__name__))
        return False
    r = _read(s)
    readable = isinstance(r, list) and len(r) == 1 and type(r[0]) is hy.models.Symbol and str(r[0]) == s
    if built != readable and why is not None:
        why.append("Symbol(%r) %s but reading %r gives %r" % (s, "succeeds" if built else "fails", s, r))
    return built == readable


def kw_ok(s, why=None):
    import hy
    from vf import skel

    if why is None and skel.EXPLAIN[0]:
        del skel.LAST_WHY[:]
        why = skel.LAST_WHY
    try:
        hy.models.Keyword(s)
        built = True
    except ValueError:
        built = False
    except Exception as e:
        if why is not None:
            why.append("Keyword(%r) raised %s" % (s, type(e).__name__))
        return False
    r = _read(":" + s)
    readable = isinstance(r, list) and len(r) == 1 and type(r[0]) is hy.models.Keyword and r[0].name == s
    if built != readable and why is not None:
        why.append("Keyword(%r) %s but reading %r gives %r" % (s, "succeeds" if built else "fails", ":" + s, r))
    return built == readable


def bstr_ok(d, s, why=None):
    import hy
    from vf import skel

    if why is None and skel.EXPLAIN[0]:
        del skel.LAST_WHY[:]
        why = skel.LAST_WHY
    if "[" in d or "]" in d:
        return True
    if s.startswith("\n"):
        return True  # a leading newline is removed by the reader by design; the model is written with an extra newline (see C25)
    try:
        hy.models.String(s, brackets=d)
        built = True
    except ValueError:
        built = False
    text = "#[" + d + "[" + s + "]" + d + "]"
    r = _read(text)
    readable = isinstance(r, list) and len(r) == 1 and type(r[0]) is hy.models.String and str(r[0]) == s and r[0].brackets == d
    if built != readable and why is not None:
        why.append("String(%r, brackets=%r) %s but reading %r gives %r" % (s, d, "succeeds" if built else "fails", text, r))
    return built == readable


def finding_key(ob, rec):
    return "%s :: %s" % (ob.sample if ob else rec.get("sample"), rec.get("replay_detail"))


def spec(tier, seed):
    obs = []
    n = len(ALPH)
    maxlen = 2 if tier == "quick" else 3
    for fname, grp in (("sym_ok", "symbol"), ("kw_ok", "keyword")):
        for i in range(n):
            fn = "%s%d" % (grp[0], i)
            params = ", ".join("i%d: int" % k for k in range(1, maxlen))
            pre = " and ".join("-1 <= i%d < %d" % (k, n) for k in range(1, maxlen))
            L = ["from checks.C26 import ALPH", "def %s(%s) -> bool:" % (fn, params), '    """', "    pre: " + pre, "    post: _", '    """',
                 "    return %s(mk(ALPH, [%d, %s]))" % (fname, i, ", ".join("i%d" % k for k in range(1, maxlen)))]
            obs.append(Ob(fn, "\n".join(L), sample="%s: strings starting with %r, length <= %d over %r" % (grp, ALPH[i], maxlen, ALPH), group=grp))
    L = ["from checks.C26 import CANDS", "def hcand(i: int, kw: bool) -> bool:", '    """', "    pre: 0 <= i < %d" % len(CANDS), "    post: _", '    """',
         "    for k in range(%d):" % len(CANDS), "        if i == k:", "            return kw_ok(CANDS[k]) if kw else sym_ok(CANDS[k])", "    return True"]
    obs.append(Ob("hcand", "\n".join(L), sample="Symbol(s) / Keyword(s) vs reader for the hand-written candidates %r" % (CANDS,), group="candidates"))
    # bracket strings: delimiter length <= 2, content length <= 3 (4 thorough)
    clen = 3 if tier == "quick" else 4
    for d0 in range(-1, len(DALPH)):
        for d1 in range(-1, len(DALPH)):
            if d0 == -1 and d1 != -1:
                continue
            fn = "b%d_%d" % (d0 + 1, d1 + 1)
            params = ", ".join("c%d: int" % k for k in range(clen))
            pre = " and ".join("-1 <= c%d < %d" % (k, len(BALPH)) for k in range(clen))
            L = ["from checks.C26 import BALPH, DALPH", "def %s(%s) -> bool:" % (fn, params), '    """', "    pre: " + pre, "    post: _", '    """',
                 "    return bstr_ok(mk(DALPH, [%d, %d]), mk(BALPH, [%s]))" % (d0, d1, ", ".join("c%d" % k for k in range(clen)))]
            obs.append(Ob(fn, "\n".join(L), sample="String(s, brackets=%r) vs reader, s of length <= %d over %r" % (mk(DALPH, [d0, d1]), clen, BALPH), group="bracket-string"))
    tw = "\n".join(["from checks.C26 import ALPH", "def twin0(i1: int) -> bool:", '    """', "    pre: -1 <= i1 < 5", "    post: _", '    """', "    sym_ok(mk(ALPH, [0, i1]))", "    return False"])
    obs.append(Ob("twin0", tw, twin=True, group="twin"))
    return {
        "preamble": PREAMBLE,
        "obligations": obs,
        "level": "model_checking",
        "timeout": 600.0,
        "path_timeout": 60.0,
        "batch": 1,
        "grade": "R/D: strings are built from selector integers by explicit forks (model constructors must not receive solver proxies); the engine certifies exhaustion of the box",
        "functions_encoded": ["hy.models.Symbol.__new__ -> hy.reader.hy_reader.as_identifier", "hy.models.Keyword.__init__", "hy.models.String.__new__ (bracket check)",
                              "hy.reader.hy_reader.HyReader (read_many on the same text)"],
        "bounds": "Symbol / Keyword: every string of length 1..%d over the %d-character alphabet %r; String(s, brackets=d): d of length 0..2 over %r, s of length 0..%d over %r "
                  "(s starting with a newline excluded: the reader drops it by design)" % (maxlen, n, ALPH, DALPH, clen, BALPH),
        "outside": "longer strings and characters outside the alphabets, except the 50 hand-written number-like candidates",
        "stubs": [],
        "assumptions": ["both sides are the real code: this is a differential of two implementations of one rule (constructor-side validation vs the reader)"],
    }


MANIFEST = {
    "engine": "A",
    "level": "model_checking",
    "technique": "CrossHair/z3 enumerating a bounded string box: real model constructors vs the real reader on the same text (differential)",
    "text": "For every string in the box, hy.models.Symbol(s) / Keyword(s) / String(s, brackets=d) must succeed exactly when the reader, given the corresponding text, produces exactly that one "
            "model; a disagreement is a concrete string replayed natively.",
    "note": "Exhaustive only inside the alphabet x length box (grade R/D).",
}
