"""C23: string and bracket-string literals read with Python's escape semantics (grade R/D; oracle = CPython evaluating the same literal)."""
from vf import strsym
from vf.xh import Ob

PREAMBLE = '''\
import sys
from vf import skel as _sk
from checks.C23 import str_ok, bstr_ok, ALPH, BALPH, DALPH
'''

ALPH = "\\\"anx0N{}qu'\r\né😀\t7U"
PREFIXES = ["", "r", "b", "br", "rb"]   # the property names these five; upper-case prefixes are Python-only and not judged
BALPH = "]a\n[\\\"="
DALPH = "a="


def _unescaped_quote_or_open_end(h, raw):
    """True if the literal `"` + h + `"` is not exactly one string token (a quote inside, or the closing quote escaped)."""
    i = 0
    while i < len(h):
        if h[i] == "\\":
            i += 2
            continue
        if h[i] == '"':
            return True
        i += 1
    return i > len(h)  # a trailing backslash swallowed the closing quote


def _str_ok(prefix, h):
    import warnings

    import hy
    from hy.reader.exceptions import LexException, PrematureEndOfInput

    if _unescaped_quote_or_open_end(h, "r" in prefix.lower()):
        return None
    if "r" not in prefix.lower():
        i = 0
        while i < len(h) - 1:
            if h[i] == "\\":
                if not h[i + 1].isascii():
                    return None  # CPython 3.12 copies backslash + non-ASCII through without its invalid-escape warning: not a usable oracle
                i += 2
            else:
                i += 1
    text = prefix + '"' + h + '"'
    try:
        ms = list(hy.read_many(text))
        got = ("v", ms)
    except (LexException, PrematureEndOfInput) as e:
        got = ("x", type(e).__name__)
    except Exception as e:
        return "reader raised %s on %r" % (type(e).__name__, text)
    pytext = prefix + '"""' + h + '"""'
    try:
        with warnings.catch_warnings():
            warnings.simplefilter("error")
            want = ("v", eval(compile(pytext, "<lit>", "eval")))
    except (SyntaxError, ValueError) as e:
        want = ("x", str(e)[:60])
    if want[0] == "x":
        if got[0] != "x":
            return "Python rejects %r (%s) but Hy reads %r" % (pytext, want[1], got[1])
        return None
    if got[0] == "x":
        return "Python reads %r as %r but Hy raises %s" % (pytext, want[1], got[1])
    ms = got[1]
    if len(ms) != 1:
        return "Hy reads %r as %d forms %r" % (text, len(ms), ms)
    m = ms[0]
    v = want[1]
    if isinstance(v, bytes):
        ok = type(m) is hy.models.Bytes and bytes(m) == v
    else:
        ok = type(m) is hy.models.String and str(m) == v
    if not ok:
        return "%r: Python value %r, Hy model %r" % (text, v, m)
    return None


def str_ok(pi, h, why=None):
    from vf import skel

    if why is None and skel.EXPLAIN[0]:
        del skel.LAST_WHY[:]
        why = skel.LAST_WHY
    r = strsym.untraced(_str_ok, PREFIXES[pi], h)
    if r is not None and why is not None:
        why.append(r)
    return r is None


def _bstr_ok(d, s):
    import hy
    from hy.reader.exceptions import LexException, PrematureEndOfInput

    closer = "]" + d + "]"
    if (s + closer).find(closer) < len(s) or "[" in d or "]" in d:
        return None
    text = "#[" + d + "[" + s + closer
    try:
        ms = list(hy.read_many(text))
    except (LexException, PrematureEndOfInput) as e:
        return "reading %r raised %s" % (text, type(e).__name__)
    except Exception as e:
        return "reader raised %s on %r" % (type(e).__name__, text)
    want = s[1:] if s.startswith("\n") else s
    if not (len(ms) == 1 and type(ms[0]) is hy.models.String and str(ms[0]) == want and ms[0].brackets == d):
        return "%r should read verbatim as %r (brackets %r), got %r" % (text, want, d, ms)
    return None


def bstr_ok(d, s, why=None):
    from vf import skel

    if why is None and skel.EXPLAIN[0]:
        del skel.LAST_WHY[:]
        why = skel.LAST_WHY
    r = strsym.untraced(_bstr_ok, d, s)
    if r is not None and why is not None:
        why.append(r)
    return r is None


def finding_key(ob, rec):
    return "%s" % (rec.get("replay_detail"),)


def spec(tier, seed):
    maxlen = 3 if tier == "quick" else 4
    obs = []
    for pi, pfx in enumerate(PREFIXES):
        if tier == "quick" and pfx in ("R", "B", "bR"):
            continue
        obs += strsym.string_box_obs("p%d_" % pi, "str_ok(%d, {s})" % pi, "ALPH", ALPH, maxlen, "prefix " + repr(pfx),
                                     repr(pfx) + '"..." with content starting with {first}, length <= {n} over {alph!r}')
    for di, d in enumerate(["", "a", "=", "aa", "a="]):
        obs += strsym.string_box_obs("b%d_" % di, "bstr_ok(%r, {s})" % d, "BALPH", BALPH, maxlen + 1, "bracket " + repr(d),
                                     "#[" + d + "[...]" + d + "] with content starting with {first}, length <= {n} over {alph!r}")
    tw = "\n".join(["def twin0(i0: int) -> bool:", '    """', "    post: _", '    """', "    str_ok(0, 'a' + _sk.pick_str(ALPH, [i0]))", "    return False"])
    obs.append(Ob("twin0", tw, twin=True, group="twin"))
    return {
        "preamble": PREAMBLE,
        "obligations": obs,
        "level": "model_checking",
        "timeout": 1200.0,
        "path_timeout": 60.0,
        "batch": 2,
        "grade": "R/D (one concrete string per path; reader call untraced)",
        "functions_encoded": ["hy.reader.hy_reader.HyReader.read_string / read_chars_until / bracket-string reader (#[)", "codecs unicode_escape / escape_decode as used by the reader"],
        "bounds": "prefixes %r; contents of length 1..%d over %r (quotes that end the literal early and escaped closing quotes are skipped: not one literal); bracket strings with delimiters "
                  "'', a, =, aa, a= and contents of length 1..%d over %r" % (PREFIXES if tier == "thorough" else PREFIXES[:5], maxlen, ALPH, maxlen + 1, BALPH),
        "outside": "longer contents; characters outside the alphabets (in particular every other escape letter); f-strings (C24)",
        "stubs": ["reader call executed under crosshair.tracers.NoTracing"],
        "assumptions": ["oracle: CPython evaluating prefix + triple-quoted content with warnings as errors (an escape CPython warns about counts as unrecognised); CR and CRLF in source read as LF "
                        "because CPython's tokenizer does the same"],
    }


MANIFEST = {
    "engine": "A",
    "level": "model_checking",
    "technique": "CrossHair/z3 enumerating a bounded content box through folded selectors: real reader vs CPython evaluating the same literal",
    "text": "Every literal in the box is read by the real reader and evaluated by CPython; values and types must agree, literals CPython rejects or warns about must be Hy syntax errors, and "
            "bracket strings must read verbatim minus one leading newline.",
    "note": "Grade R/D: exhaustive only inside the alphabet x length box.",
}
