"""C05: fn/defn bind arguments exactly like the equivalent Python def.

Decomposed into two families (the call protocol composes them):
  def side : every lambda list (<= N parameters) is compiled by Hy and, independently, printed as a Python
             lambda; both are called with a fully symbolic argument vector (*pos, **kw) and must bind the
             same values or raise TypeError in the same cases.
  call side: every call shape (<= M arguments over positional / :keyword / #* / #**, mingled in any order)
             is compiled by Hy and compared with the Python call text on a receiver that returns (args, kwargs).
  body side: implicit return of the last form and the docstring rule.
"""
import itertools

from vf.xh import Ob

PREAMBLE = '''\
import sys, types
from typing import List, Dict, Tuple
from vf import skel as _sk
from checks.C05 import def_side, call_side, body_side
'''

NAMES = ["a", "b", "c", "d"]


# ------------------------------------------------------------------ lambda lists

def lambda_lists(maxp):
    """Yield specs: list of (name, kind, has_default) plus star in {None,'args','bare'} and kwargs flag."""
    out = []
    for total in range(0, maxp + 1):
        for p in range(0, total + 1):
            for n in range(0, total - p + 1):
                k = total - p - n
                for star in (None, "args", "bare"):
                    if star == "bare" and k == 0:
                        continue
                    if star is None and k > 0:
                        continue
                    for kwargs in (False, True):
                        npos = p + n
                        for dpos in range(0, npos + 1):  # number of trailing positional params with defaults
                            for dk in itertools.product((False, True), repeat=k):
                                params = []
                                for i in range(npos):
                                    kind = "posonly" if i < p else "normal"
                                    params.append((NAMES[i], kind, i >= npos - dpos))
                                for j in range(k):
                                    params.append((NAMES[npos + j], "kwonly", dk[j]))
                                out.append((tuple(params), star, kwargs))
    return out


def hy_lambda_list(spec):
    params, star, kwargs = spec
    parts = []
    seen_slash = False
    npos_only = sum(1 for _, k, _ in params if k == "posonly")
    di = 0
    for i, (nm, kind, dflt) in enumerate(params):
        if kind != "posonly" and npos_only and not seen_slash:
            parts.append("/")
            seen_slash = True
        if kind == "kwonly" and "*" not in parts and not any(p.startswith("#* ") for p in parts):
            parts.append("#* rest" if star == "args" else "*")
        if dflt:
            parts.append("[%s dflt%d]" % (nm, di))
            di += 1
        else:
            parts.append(nm)
    if npos_only and not seen_slash:
        parts.append("/")
    if star == "args" and not any(p.startswith("#* ") for p in parts):
        parts.append("#* rest")
    if kwargs:
        parts.append("#** kws")
    return "[" + " ".join(parts) + "]", di


def py_lambda_list(spec):
    """Independent printer: Python parameter list text."""
    params, star, kwargs = spec
    pos_only = [p for p in params if p[1] == "posonly"]
    normal = [p for p in params if p[1] == "normal"]
    kwonly = [p for p in params if p[1] == "kwonly"]
    di = [0]

    def one(p):
        if p[2]:
            s = "%s=dflt%d" % (p[0], di[0])
            di[0] += 1
            return s
        return p[0]

    parts = [one(p) for p in pos_only]
    if pos_only:
        parts.append("/")
    parts += [one(p) for p in normal]
    if star == "args":
        parts.append("*rest")
    elif kwonly:
        parts.append("*")
    parts += [one(p) for p in kwonly]
    if kwargs:
        parts.append("**kws")
    return ", ".join(parts)


def bound_tuple(spec):
    params, star, kwargs = spec
    names = [p[0] for p in params]
    if star == "args":
        names.append("rest")
    if kwargs:
        names.append("kws")
    return names


# -------------------------------------------------------------------- harness bodies

def _outcome(f):
    try:
        return ("v", f())
    except TypeError:
        return ("x", "TypeError")


def def_side(prog, pycode, dflts, pos, kw, why=None):
    from vf import skel

    if why is None and skel.EXPLAIN[0]:
        del skel.LAST_WHY[:]
        why = skel.LAST_WHY
    if prog[0] != "ok":
        if why is not None:
            why.append("Hy rejected the lambda list: %r" % (prog[1:3],))
        return False
    g1 = {}
    g2 = {}
    for i, v in enumerate(dflts):
        g1["dflt%d" % i] = v
        g2["dflt%d" % i] = v
    fh = skel.run_code(prog, g1)
    fp = types_fn(pycode, g2)
    kws = {}
    for k in kw:
        kws[k] = kw[k]
    a = _outcome(lambda: fh(*pos, **kws))
    b = _outcome(lambda: fp(*pos, **kws))
    ok = a[0] == b[0] and (a[0] == "x" or a[1] == b[1])
    if not ok and why is not None:
        why.append("hy fn -> %r ; python def -> %r" % (a, b))
    return ok


def types_fn(code, g):
    import types

    return types.FunctionType(code, g)()


def call_side(prog, pycode, vals, why=None):
    from vf import skel
    from vf.envobj import mkE

    if why is None and skel.EXPLAIN[0]:
        del skel.LAST_WHY[:]
        why = skel.LAST_WHY
    if prog[0] != "ok":
        if why is not None:
            why.append("Hy rejected the call: %r" % (prog[1:3],))
        return False
    l1, l2 = [], []
    g1, g2 = {}, {}
    for k, v in vals:
        g1[k] = v
        g2[k] = v
    g1["E"] = mkE(l1)
    g2["E"] = mkE(l2)
    g1["F"] = skel._F
    g2["F"] = skel._F

    def run1():
        return skel.run_code(prog, g1)

    def run2():
        return types_fn(pycode, g2)

    a = _outcome(run1)
    b = _outcome(run2)
    ok = a[0] == b[0] and (a[0] == "x" or a[1] == b[1])
    if ok and a[0] == "v":
        ok = sorted(l1) == sorted(l2)  # argument evaluation order is unspecified in Hy
    if not ok and why is not None:
        why.append("hy call -> %r log %r ; python call -> %r log %r" % (a, l1, b, l2))
    return ok


def body_side(prog, expect_doc, expect_val_tag, t, why=None):
    from vf import skel

    if prog[0] != "ok":
        return False
    g = {"v0": skel.V(0, t), "v1": skel.V(1, t)}
    f = skel.run_code(prog, g)
    r = f()
    doc_ok = f.__doc__ == expect_doc
    if expect_val_tag is None:
        val_ok = r is None
    elif isinstance(expect_val_tag, str):
        val_ok = r == expect_val_tag
    else:
        val_ok = isinstance(r, skel.V) and r.tag == expect_val_tag
    return doc_ok and val_ok


# ---------------------------------------------------------------------- call shapes

def call_shapes(maxa):
    kinds = ("pos", "kw:k1", "kw:k2", "star", "dstar")
    out = [()]
    for n in range(1, maxa + 1):
        for ks in itertools.product(kinds, repeat=n):
            kws = [k for k in ks if k.startswith("kw:")]
            if len(kws) != len(set(kws)):
                continue  # repeated literal keyword: rejected by Python's parser itself
            out.append(ks)
    return out


def render_call(ks):
    hy = ["F"]
    py_pos, py_kw = [], []
    site = 0
    xi = xsi = di = 0
    params = []
    vals = []
    for k in ks:
        if k == "pos":
            hy.append("(E %d x%d)" % (site, xi))
            py_pos.append("E(%d, x%d)" % (site, xi))
            params.append("x%d: int" % xi)
            vals.append("('x%d', x%d)" % (xi, xi))
            xi += 1
        elif k.startswith("kw:"):
            nm = k[3:]
            hy.append(":%s (E %d x%d)" % (nm, site, xi))
            py_kw.append("%s=E(%d, x%d)" % (nm, site, xi))
            params.append("x%d: int" % xi)
            vals.append("('x%d', x%d)" % (xi, xi))
            xi += 1
        elif k == "star":
            hy.append("#* (E %d xs%d)" % (site, xsi))
            py_pos.append("*E(%d, xs%d)" % (site, xsi))
            params.append("xs%d: List[int]" % xsi)
            vals.append("('xs%d', xs%d)" % (xsi, xsi))
            xsi += 1
        else:
            hy.append("#** (E %d d%d)" % (site, di))
            py_kw.append("**E(%d, d%d)" % (site, di))
            params.append("d%d: Dict[str, int]" % di)
            vals.append("('d%d', d%d)" % (di, di))
            di += 1
        site += 1
    pre = ["len(xs%d) <= 2" % i for i in range(xsi)] + [
        "len(d%d) <= 2 and all(k in ('k1', 'k2', 'k3') for k in d%d)" % (i, i) for i in range(di)]
    return "(" + " ".join(hy) + ")", "F(" + ", ".join(py_pos + py_kw) + ")", params, vals, pre


def spec(tier, seed):
    obs = []
    maxp = 3 if tier == "quick" else 4
    maxa = 3 if tier == "quick" else 4
    n = 0
    for li, sp in enumerate(lambda_lists(maxp)):
        if len(sp[0]) == maxp and li % (5 if tier == "quick" else 6):
            continue  # quick: every 5th of the largest lambda lists (all of them in thorough)
        ll, nd = hy_lambda_list(sp)
        names = bound_tuple(sp)
        hytext = "(fn %s #(%s))" % (ll, " ".join(names))
        pytext = "lambda %s: (%s)" % (py_lambda_list(sp), "".join(nm + ", " for nm in names))
        fn = "h%d" % n
        n += 1
        pool = [p[0] for p in sp[0]] + ["zz"]
        params = ["dflt%d: int" % i for i in range(nd)] + ["pos: List[int]", "kw: Dict[str, int]"]
        L = ["P_%s = _sk.compile_prog(%r)" % (fn, hytext), "X_%s = compile(%r, '<pydef>', 'eval')" % (fn, pytext),
             "def %s(%s) -> bool:" % (fn, ", ".join(params)), '    """',
             "    pre: len(pos) <= %d" % (len(sp[0]) + 1),
             "    pre: len(kw) <= %d and all(k in %r for k in kw)" % (min(len(pool), 2 if tier == "quick" else 3), tuple(pool)),
             "    post: _", '    """',
             "    return def_side(P_%s, X_%s, [%s], pos, kw)" % (fn, fn, ", ".join("dflt%d" % i for i in range(nd)))]
        obs.append(Ob(fn, "\n".join(L), sample="def side: %s  ==  %s  called with symbolic (*pos, **kw)" % (hytext, pytext),
                      group="def/%d" % len(sp[0]), weight=len(sp[0]) + 1))
        # defn variant (named function, same lambda list) for a subset
        if n % 5 == 0:
            hytext2 = "(do (defn g %s #(%s)) g)" % (ll, " ".join(names))
            fn = "h%d" % n
            n += 1
            L[0] = "P_%s = _sk.compile_prog(%r)" % (fn, hytext2)
            L[1] = "X_%s = compile(%r, '<pydef>', 'eval')" % (fn, pytext)
            L[2] = "def %s(%s) -> bool:" % (fn, ", ".join(params))
            L[-1] = "    return def_side(P_%s, X_%s, [%s], pos, kw)" % (fn, fn, ", ".join("dflt%d" % i for i in range(nd)))
            obs.append(Ob(fn, "\n".join(L), sample="def side (defn): %s  ==  %s" % (hytext2, pytext), group="defn/%d" % len(sp[0]), weight=len(sp[0]) + 1))
    # literal defaults of every kind, falsy ones included, on positional-only, normal and keyword-only parameters
    # (after a bare * and after #* rest)
    LITS = [("0", "0"), ("0.0", "0.0"), ('""', '""'), ("#()", "()"), ("[]", "[]"), ("{}", "{}"), ('b""', 'b""'), ("None", "None"), ("False", "False"), ("7", "7"), ('"x"', '"x"')]
    for hl, pl in (LITS if tier == "thorough" else LITS[:9]):
        for hy_ll, py_ll, names in (
                ("[a / [b %s] * [k %s] r]" % (hl, hl), "a, /, b=%s, *, k=%s, r" % (pl, pl), ["a", "b", "k", "r"]),
                ("[[a %s] #* rest [flag %s] #** kws]" % (hl, hl), "a=%s, *rest, flag=%s, **kws" % (pl, pl), ["a", "rest", "flag", "kws"])):
            hytext = "(fn %s #(%s))" % (hy_ll, " ".join(names))
            pytext = "lambda %s: (%s)" % (py_ll, "".join(nm + ", " for nm in names))
            fn = "h%d" % n
            n += 1
            pool = [x for x in names if x not in ("rest", "kws")] + ["zz"]
            L = ["P_%s = _sk.compile_prog(%r)" % (fn, hytext), "X_%s = compile(%r, '<pydef>', 'eval')" % (fn, pytext),
                 "def %s(pos: List[int], kw: Dict[str, int]) -> bool:" % fn, '    """',
                 "    pre: len(pos) <= 3",
                 "    pre: len(kw) <= 2 and all(k in %r for k in kw)" % (tuple(pool),),
                 "    post: _", '    """',
                 "    return def_side(P_%s, X_%s, [], pos, kw)" % (fn, fn)]
            obs.append(Ob(fn, "\n".join(L), sample="def side (literal defaults): %s  ==  %s" % (hytext, pytext), group="def-literal-default", weight=3))
    for ci, ks in enumerate(call_shapes(maxa)):
        if len(ks) == maxa and ci % (4 if tier == "quick" else 5):
            continue
        if ks.count("dstar") >= 3:
            continue  # three symbolic dicts: does not finish within the budget
        hytext, pytext, params, vals, pre = render_call(ks)
        fn = "h%d" % n
        n += 1
        L = ["P_%s = _sk.compile_prog(%r)" % (fn, hytext), "X_%s = compile(%r, '<pycall>', 'eval')" % (fn, pytext),
             "def %s(%s) -> bool:" % (fn, ", ".join(params)), '    """']
        L += ["    pre: " + p for p in pre]
        L += ["    post: _", '    """', "    return call_side(P_%s, X_%s, [%s])" % (fn, fn, ", ".join(vals))]
        obs.append(Ob(fn, "\n".join(L), sample="call side: %s  ==  %s" % (hytext, pytext), group="call/%d" % len(ks), weight=len(ks)))
    # body side: implicit return + docstring rule
    bodies = [
        ("", None, None), ("v0", None, 0), ('"doc"', None, "doc"), ('"doc" v0', "doc", 0), ('"doc" v0 v1', "doc", 1),
        ('v0 "notdoc"', None, "notdoc"), ('v0 "notdoc" v1', None, 1), ('"doc" "second"', "doc", "second"),
        ('(setv q v0)', None, None), ('"doc" (setv q v0)', "doc", None), ('"doc" (if v0 v1 v0)', "doc", "cond"),
    ]
    for head in ("(fn []", "(do (defn g []", ):
        for body, doc, val in bodies:
            if head.startswith("(fn") and doc is not None:
                continue  # docstring rule documented for defn
            text = head + " " + body + ")" + (" g)" if head.startswith("(do") else "")
            fn = "h%d" % n
            n += 1
            if val == "cond":
                valexpr = "(1 if t else 0)"
            else:
                valexpr = repr(val)
            L = ["P_%s = _sk.compile_prog(%r)" % (fn, text), "def %s(t: bool) -> bool:" % fn, '    """', "    post: _", '    """',
                 "    return body_side(P_%s, %r, %s, t)" % (fn, doc, valexpr)]
            obs.append(Ob(fn, "\n".join(L), sample="body side: %s -> __doc__=%r value=%r" % (text, doc, val), group="body"))
    # async generators: no implicit return of the last form (a 'return value' there is a SyntaxError); compile-only checks
    for i, text in enumerate([
            "(defn :async ag [xs] (for [x xs] (yield x)) 5)",
            "(defn :async ag [xs] (let [k 10] (for [x xs] (yield (* k x))) k))",
            "(defn :async ag [xs] (when xs (let [k 1] (yield k))) xs)",
            "(fn :async [xs] (let [k 10] (yield k) k))",
            "(defn :async ag [] (try (yield 1) (finally 2)) 3)",
            "(defn :async ag [] (with [(open \"/dev/null\")] (yield 1)) 3)"]):
        fn = "h%d" % n
        n += 1
        L = ["P_%s = _sk.compile_prog(%r)" % (fn, text + " 0"), "def %s(t: bool) -> bool:" % fn, '    """', "    post: _", '    """',
             "    return P_%s[0] == 'ok'" % fn]
        obs.append(Ob(fn, "\n".join(L), sample="async generator must compile (no implicit return): " + text, group="body-async"))
    tw = "\n".join(["P_twin0 = _sk.compile_prog('(fn [a [b dflt0]] #(a b))')", "X_twin0 = compile('lambda a, b=dflt0: (a, b)', '<py>', 'eval')",
                    "def twin0(dflt0: int, pos: List[int], kw: Dict[str, int]) -> bool:", '    """', "    pre: len(pos) <= 2 and len(kw) <= 1 and all(k in ('a', 'b') for k in kw)",
                    "    post: _", '    """', "    def_side(P_twin0, X_twin0, [dflt0], pos, kw)", "    return False"])
    obs.append(Ob("twin0", tw, twin=True, group="twin"))
    return {
        "preamble": PREAMBLE,
        "obligations": obs,
        "level": "translation_validation",
        "timeout": 120.0,
        "path_timeout": 30.0,
        "batch": 12,
        "grade": "S",
        "functions_encoded": [
            "hy.core.result_macros.compile_lambda_list / compile_arguments_set / compile_function_lambda / compile_function_def / compile_function_node",
            "hy.compiler.HyASTCompiler._compile_collect (keyword arguments mingled among positionals, #*, #**), compile_expression",
        ],
        "bounds": "(quick tier: every 5th of the largest lambda lists and every 4th of the longest call shapes; thorough: all) def side: all lambda lists with <= %d parameters over {positional-only, normal, keyword-only} x {default, none} with /, #* rest, bare *, #** kws "
                  "(defaults symbolic ints; plus two lambda lists with literal defaults of 9-11 kinds, falsy ones included, on every parameter kind), each called with a symbolic positional list (len <= params+1) and a symbolic keyword dict (<= 2 keys in quick, <= 3 in thorough, from the parameter names "
                  "plus an outsider); fn and (sampled) defn. call side: all call shapes with <= %d arguments over {positional, :k1, :k2, #* list(len<=2), #** dict(keys in k1..k3)} "
                  "in every order, values symbolic. body side: 11 body shapes for the implicit-return and docstring rules." % (maxp, maxa),
        "outside": "more than %d parameters / %d arguments (property text: 6); annotations, decorators, type parameters; async generators' return rule (not runnable here)" % (maxp, maxa),
        "stubs": ["crosshair.util.getsourcelines wrapper for .hy-defined callees"],
        "assumptions": ["CPython's own def / call semantics are the oracle (Python text printed by an independent printer in checks/C05.py)",
                        "decomposition: Hy calls compile to ast.Call, so binding = (Hy lambda list vs Python def) composed with (Hy call vs Python call); both halves are checked"],
    }


MANIFEST = {
    "engine": "B",
    "level": "translation_validation",
    "technique": "CrossHair/z3 symbolic argument vectors: Hy-compiled function vs independently printed Python def; Hy call forms vs Python call text",
    "text": "Every lambda list up to the bound is compiled by Hy and printed as a Python lambda; both are applied to a solver-chosen (*pos, **kw) and must bind identically or both "
            "raise TypeError. Every call shape up to the bound is compiled by Hy and compared with the Python call on symbolic values, lists and keyword dicts. Implicit return and the "
            "docstring rule are checked per body shape.",
    "note": "Bounded by parameter/argument counts (evidence.bounds). Trusted: CPython binding semantics, CrossHair, z3.",
}
