"""C04: comprehension forms produce the reference nested-loop result (Engine B)."""
import itertools

from vf import skel
from vf.gen import Ctx
from vf.xh import Ob

KINDS = ("iter", "if", "setv", "do")


def wrap(c, form, stmt):
    """Optionally make a clause expression statement-producing (forces the generator-function strategy)."""
    if not stmt:
        return form
    q = c.qname()
    return ("do", ("setv", q, form), q)


def build(form, kinds, stmt_at, final, else_=False, brk=False):
    """One comprehension skeleton.  kinds: clause kinds; stmt_at: index of the clause made statement-producing
    (or None; len(kinds) = the final form); final: 'pe' | 'setx' | 'star' | 'dstar'."""
    c = Ctx()
    clauses = []
    ivars = []
    last = None  # most recent bound int variable
    for j, k in enumerate(kinds):
        st = stmt_at == j
        if k == "iter":
            v = "i%d" % len(ivars)
            ivars.append(v)
            it = wrap(c, ("E", c.sites(), c.leaf("xs")), st)
            clauses += [v, it]
            last = v
        elif k == "if":
            test = ("E", c.sites(), ("<", last, c.leaf("x"))) if last else ("E", c.sites(), ("<", c.leaf("x"), 1))
            clauses += [(":", "if"), wrap(c, test, st)]
        elif k == "setv":
            val = ("E", c.sites(), ("+", last, 1)) if last else ("E", c.sites(), c.leaf("x"))
            v = "w%d" % j
            clauses += [(":", "setv"), v, wrap(c, val, st)]
            last = v
        elif k == "do":
            clauses += [(":", "do"), wrap(c, ("E", c.sites(), last or 0), st)]
    stf = stmt_at == len(kinds)
    elem = last if last else 7
    if form == "for":
        body = [("E", c.sites(), elem)]
        if final == "setx":
            body = [("setx", "leak", ("E", c.sites(), elem))]
        if stf:
            body = [wrap(c, body[0], True)]
        if brk and last:
            body.insert(0, ("if", ("=", last, c.leaf("x")), ("break",), None))
        parts = ["for", ("[",) + tuple(clauses)] + body
        if else_:
            parts.append(("else", ("E", c.sites(), 99)))
        return tuple(parts)
    if form == "dfor":
        if final == "dstar":
            fin = [("unpack-mapping", wrap(c, ("E", c.sites(), ("{", elem, 1)), stf))]
        else:
            key = wrap(c, ("E", c.sites(), elem), stf and final != "valstmt")
            valf = ("E", c.sites(), ("#(", elem, 0))
            if final == "setx":
                valf = ("setx", "leak", valf)
            if final == "valstmt" and stf:
                valf = wrap(c, valf, True)
            fin = [key, valf]
    else:
        if final == "star":
            fin = [("unpack-iterable", wrap(c, ("E", c.sites(), ("[", elem, elem)), stf))]
        elif final == "setx":
            fin = [wrap(c, ("setx", "leak", ("E", c.sites(), elem)), stf)]
        else:
            fin = [wrap(c, ("E", c.sites(), elem), stf)]
    return (form,) + tuple(clauses) + tuple(fin)


def clause_lists(maxlen):
    out = [()]
    for n in range(1, maxlen + 1):
        for ks in itertools.product(KINDS, repeat=n):
            out.append(ks)
    return out


def observe(sk, names):
    """Wrap so that leaked / non-leaked names are observable inside function and class scopes."""
    probes = tuple(("try", n, ("except", ("[", "NameError"), ("str", "unbound"))) for n in names)
    return ("do", ("setv", "r", sk), ("#(", "r") + probes)


def skeletons(tier):
    out = []
    maxlen = 2 if tier == "quick" else 3
    lists = clause_lists(maxlen)
    n = 0
    for form in ("lfor", "sfor", "dfor", "gfor", "for"):
        for ks in lists:
            if not ks:
                continue  # zero clauses: Hy returns an empty collection by design; not covered by the nested-loop reading
            if ks[0] != "iter":
                # the documented reading is relative to loops; what a form that *starts* with :if/:setv/:do means
                # (else placement, which part of a gfor runs at creation, native comprehension impossible) is not documented
                continue
            finals = {"lfor": ("pe", "setx", "star"), "sfor": ("pe", "star"), "gfor": ("pe", "setx", "star"),
                      "dfor": ("pe", "setx", "dstar", "valstmt"), "for": ("pe", "setx")}[form]
            for final in finals:
                for stmt_at in [None] + list(range(len(ks) + 1)):
                    if final == "valstmt" and stmt_at != len(ks):
                        continue
                    n += 1

                    if len(ks) == maxlen and (n % (3 if tier == "quick" else 7)):
                        continue
                    variants = [(False, False)]
                    if form == "for":
                        variants = [(False, False), (True, False), (True, True)]
                    for else_, brk in variants:
                        if (else_ or brk) and "iter" not in ks:
                            continue  # else/break need a loop
                        try:
                            sk = build(form, ks, stmt_at, final, else_, brk)
                        except Exception:
                            continue
                        nm = "%s/%s/stmt@%s/%s%s%s" % (form, "-".join(ks) or "none", stmt_at, final, "/else" if else_ else "", "/break" if brk else "")
                        names = ["i0", "i1", "w0", "w1", "w2", "leak"]
                        out.append(("module:" + nm, ("do", ("setv", "i0", -5, "w1", -6), sk)))
                        if n % (4 if tier == "quick" else 2) == 0:
                            out.append(("fn:" + nm, ("call", ("fn", ("[",), ("setv", "i0", -5), observe(sk, names)))))
                        if n % (6 if tier == "quick" else 3) == 0 and final != "setx":
                            out.append(("class:" + nm, ("do", ("defclass", "K", ("[",), ("setv", "i0", -5), ("setv", "r", sk)),
                                                           ("#(", "K.r", ("hasattr", "K", ("str", "i1")), ("hasattr", "K", ("str", "leak"))))))
    return out


def scope_skeletons():
    """The first iterable belongs to the enclosing scope: it may mention the loop variable's own name (the enclosing
    binding is meant) and, in a class body, a class variable -- in the native-comprehension and in the
    generator-function strategy alike (single-clause forms included)."""
    out = []
    for form in ("lfor", "sfor", "dfor", "gfor"):
        for nclauses in (1, 2):
            for stmt in (False, True):
                for place in ("module-self", "fn-self", "class-var"):
                    c = Ctx()
                    src = "i0" if place != "class-var" else "cv"
                    clauses = ["i0", ("E", c.sites(), src)]
                    if nclauses == 2:
                        clauses += [(":", "if"), ("E", c.sites(), ("<", "i0", c.leaf("x")))]
                    val = wrap(c, ("E", c.sites(), "i0"), stmt)
                    if form == "dfor":
                        fin = [("E", c.sites(), "i0"), val]
                    else:
                        fin = [val]
                    sk = (form,) + tuple(clauses) + tuple(fin)
                    if form == "gfor":
                        sk = ("list", sk)
                    xs = c.leaf("xs")
                    nm = "%s:%s/%d-clause/%s" % (place, form, nclauses, "stmt" if stmt else "expr")
                    if place == "module-self":
                        out.append((nm, ("do", ("setv", "i0", xs), ("setv", "r", sk), ("#(", "r", "i0"))))
                    elif place == "fn-self":
                        out.append((nm, ("call", ("fn", ("[",), ("setv", "i0", xs), ("setv", "r", sk), ("#(", "r", "i0")))))
                    else:
                        out.append((nm, ("do", ("defclass", "K", ("[",), ("setv", "cv", xs), ("setv", "r", sk)), ("#(", "K.r", ("hasattr", "K", ("str", "i0"))))))
    return out


def spec(tier, seed):
    obs = []
    for n, (name, sk) in enumerate(skeletons(tier) + scope_skeletons()):
        fn = "h%d" % n
        info = skel.scan(sk)
        extra = []
        if name.startswith("class") or "sfor/" in name or "dfor/" in name or ":sfor" in name or ":dfor" in name:
            # set/dict elements are hashed and class bodies copy namespaces: CrossHair realises the list elements, so box them
            extra = ["all(-1 <= e <= 1 for e in xs%d)" % i for i in sorted(info["xs"])]
        src, text = skel.harness_src(fn, sk, sup=False, xs_len=2 if (tier == "quick" or extra) else 3, extra_pre=extra,
                                     int_box=(-2, 2) if extra else None)
        obs.append(Ob(fn, src, sample=name + "  " + text, group=name.split("/")[0]))
    tw, _ = skel.harness_src("twin0", build("lfor", ("iter", "if"), 1, "pe"), twin=True)
    obs.append(Ob("twin0", tw, twin=True, group="twin"))
    return {
        "preamble": skel.PREAMBLE,
        "obligations": obs,
        "level": "translation_validation",
        "timeout": 120.0,
        "path_timeout": 30.0,
        "batch": 12,
        "grade": "S",
        "functions_encoded": [
            "hy.core.result_macros.compile_comprehension (native comprehension and generator-function strategies; for with else/break)",
            "hy.scoping.ScopeGen (assign/access/iterator/finalize), ScopeFn, ScopeGlobal",
        ],
        "bounds": "clause lists of length 1..%d starting with an iteration clause, over {iteration, :if, :setv, :do}; at most one clause or the final form made statement-producing (every position); "
                  "final forms: plain, setx (leaks), #* (lfor/sfor/gfor), key/value, value-with-statements and #** (dfor); for with else and break; module level, and sampled "
                  "function and class scope with name-visibility probes; 48 skeletons whose first iterable mentions the loop variable's own name (module, function) or a class variable, one or two clauses, both strategies; iterables symbolic lists (len<=%d), :if thresholds and break values symbolic ints"
                  % (2 if tier == "quick" else 3, 2 if tier == "quick" else 3),
        "outside": "clause lists longer than stated (property text: 5); :async clauses; destructuring targets; more than one statement-producing clause",
        "stubs": ["crosshair.util.getsourcelines wrapper for .hy-defined callees", "crosshair.fnutil.getclosurevars wrapper (empty closure cells)"],
        "assumptions": ["oracle = vf/refsem.py nested-loop semantics; gfor: first iterable may be evaluated at creation or at first next() (both accepted)",
                        "leak rules from docs/api.rst (lfor): iteration/:setv names invisible outside, setx inside leaks, for shares the caller's scope"],
    }


MANIFEST = {
    "engine": "B",
    "level": "translation_validation",
    "technique": "CrossHair/z3 symbolic execution of real-compiler output vs reference nested-loop interpreter, per bounded-exhaustive clause list",
    "text": "Each clause list x final form x comprehension kind x scope is compiled by the real compiler (both strategies are forced by making each position in turn "
            "statement-producing) and run on symbolic lists/ints; elements, order, laziness, effect log and the set of names visible afterwards must equal the reference "
            "interpreter's.",
    "note": "Bounded by clause-list length and list length. Trusted: CPython, CrossHair, z3, vf/refsem.py.",
}
