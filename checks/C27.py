"""C27: hy.repr round-trips values of the documented types (grade D: selector box over concrete value pools)."""
from vf import strsym
from vf.xh import Ob

PREAMBLE = '''\
import sys
from vf import skel as _sk
from checks.C27 import val_ok, cyc_ok
'''


def leaves():
    import hy
    from fractions import Fraction

    nan = float("nan")
    return [None, True, False, 0, -7, 2 ** 70, 1.5, float("inf"), float("-inf"), nan, -0.0, 1e300, 5e-324, 2j, complex(1, -2), complex(float("inf"), nan), "", "a", "a\n'\"\\é\x00😀", "{x}",
            b"", b"\x00\xff'\"", bytearray(b"x\n"), hy.models.Keyword("kw"), hy.models.Keyword(""), Fraction(1, 3), Fraction(-5, 1), range(3), range(1, 10, 2), range(0), slice(1, None, 2),
            slice(None), slice(None, 4), slice(2, 5, 1), slice(None, None, 1), range(2, 5, 1), range(5, 0, -1), slice(0, 3, -1), (), [], {}, set(), frozenset()]


def containers():
    import collections

    return [
        ("list", lambda a, b: [a, b]), ("tuple", lambda a, b: (a, b)), ("tuple1", lambda a, b: (a,)), ("dict", lambda a, b: {1: a, "k": b}), ("dict-key", lambda a, b: {_h(a): b}),
        ("set", lambda a, b: {_h(a), _h(b)}), ("frozenset", lambda a, b: frozenset([_h(a)])), ("deque", lambda a, b: collections.deque([a, b])),
("OrderedDict", lambda a, b: collections.OrderedDict([(1, a), (2, b)])),
        ("Counter", lambda a, b: collections.Counter({_h(a): 2, "z": 1})), ("defaultdict", lambda a, b: collections.defaultdict(list, {1: a, 2: b})),
        ("defaultdict-int", lambda a, b: collections.defaultdict(int, {"a": 1})), ("ChainMap", lambda a, b: collections.ChainMap({1: a}, {2: b})),
        ("nested", lambda a, b: [(a, [b, {3: a}]), {"s": (b,)}]),
    ]


class _Unhashable(Exception):
    pass


def _h(x):
    try:
        hash(x)
    except TypeError:
        raise _Unhashable()
    return x


def _eq(a, b):
    import math

    if type(a) is not type(b):
        return False
    if isinstance(a, float):
        return (math.isnan(a) and math.isnan(b)) or (a == b and math.copysign(1, a) == math.copysign(1, b))
    if isinstance(a, complex):
        return _eq(a.real, b.real) and _eq(a.imag, b.imag)
    if isinstance(a, (list, tuple)) or type(a).__name__ == "deque":
        if len(a) != len(b):
            return False
        if type(a).__name__ == "deque" and a.maxlen != b.maxlen:
            return False
        return all(_eq(x, y) for x, y in zip(a, b))
    if isinstance(a, dict):
        if len(a) != len(b):
            return False
        if type(a).__name__ == "defaultdict" and a.default_factory is not b.default_factory:
            return False
        for (k1, v1), (k2, v2) in zip(a.items(), b.items()):
            if not (_eq(k1, k2) and _eq(v1, v2)):
                return False
        return True
    if type(a).__name__ == "ChainMap":
        return len(a.maps) == len(b.maps) and all(_eq(x, y) for x, y in zip(a.maps, b.maps))
    if isinstance(a, (set, frozenset)):
        if len(a) != len(b):
            return False
        for x in a:
            if not any(_eq(x, y) for y in b):
                return False
        return True
    if type(a).__name__ == "Keyword":
        return a.name == b.name
    return a == b


def _env():
    import collections
    import fractions

    g = {}
    exec("import collections, fractions\nfrom collections import *\nfrom fractions import Fraction", g)
    return g


def _val_ok(ci, ai, bi):
    import hy

    L = leaves()
    a, b = L[ai], L[bi]
    if ci < 0:
        x = a
        desc = repr(a)
    else:
        name, mk = containers()[ci]
        try:
            x = mk(a, b)
        except _Unhashable:
            return None
        desc = "%s of %r, %r" % (name, a, b)
    try:
        s = hy.repr(x)
    except Exception as e:
        return "hy.repr(%s) raised %s: %s" % (desc, type(e).__name__, str(e)[:80])
    try:
        back = hy.eval(hy.read(s), _env())
    except Exception as e:
        return "hy.repr(%s) = %r does not read/evaluate: %s: %s" % (desc, s, type(e).__name__, str(e)[:80])
    if not _eq(back, x):
        return "hy.repr(%s) = %r evaluates to %r (type %s)" % (desc, s, back, type(back).__name__)
    return None


def val_ok(ci, ai, bi, why=None):
    from vf import skel

    if why is None and skel.EXPLAIN[0]:
        del skel.LAST_WHY[:]
        why = skel.LAST_WHY
    r = strsym.untraced(_val_ok, ci, ai, bi)
    if r is not None and why is not None:
        why.append(r)
    return r is None


def _cyc_ok(k):
    import collections

    import hy

    if k == 0:
        x = [1]
        x.append(x)
        want = "[1 [...]]"
    elif k == 1:
        x = {}
        x["k"] = x
        want = "{\"k\" {...}}"
    elif k == 2:
        x = [1, {"a": None}]
        x[1]["a"] = x
        want = None
    elif k == 3:
        x = collections.deque([1])
        x.append(x)
        want = None
    elif k == 4:
        x = collections.OrderedDict()
        x[1] = x
        want = None
    elif k == 5:
        a = [1]
        b = (a, 2)
        a.append(b)
        x = a
        want = None
    elif k == 6:
        # a container that reaches itself twice
        x = [0]
        x.append(x)
        x.append(x)
        want = "[0 [...] [...]]"
    elif k == 7:
        x = {}
        x["a"] = x
        x["b"] = [x]
        want = '{"a" {...}  "b" [{...}]}'
    elif k == 8:
        b = []
        x = [b]
        b.extend([x, x])
        want = "[[[...] [...]]]"
    else:
        # the same (acyclic) object twice is not a cycle
        a = [1]
        x = [a, a, {"k": a}]
        s = hy.repr(x)
        if s != '[[1] [1] {"k" [1]}]':
            return "shared (not cyclic) element printed as %r" % s
        return None
    try:
        s = hy.repr(x)
    except RecursionError:
        return "hy.repr of a self-referential %s did not terminate (RecursionError)" % type(x).__name__
    except Exception as e:
        return "hy.repr of a self-referential %s raised %s" % (type(x).__name__, type(e).__name__)
    if "..." not in s:
        return "no placeholder in %r" % s
    if want is not None and s != want:
        return "self-referential value printed %r, documented placeholder form %r" % (s, want)
    # and the next call is unaffected
    if hy.repr([1, [2]]) != "[1 [2]]":
        return "state leaked after a self-referential value"
    return None


def cyc_ok(k, why=None):
    from vf import skel

    if why is None and skel.EXPLAIN[0]:
        del skel.LAST_WHY[:]
        why = skel.LAST_WHY
    r = strsym.untraced(_cyc_ok, k)
    if r is not None and why is not None:
        why.append(r)
    return r is None


def finding_key(ob, rec):
    return "%s" % (rec.get("replay_detail"),)


def spec(tier, seed):
    nl = len(leaves())
    cs = containers()
    obs = []
    L = ["def hleaf(a: int) -> bool:", '    """', "    post: _", '    """', "    return val_ok(-1, _sk.box(a, 0, %d), 0)" % (nl - 1)]
    obs.append(Ob("hleaf", "\n".join(L), sample="every leaf value: %r" % (leaves(),), group="leaves"))
    for ci, (name, _) in enumerate(cs):
        fn = "c%d" % ci
        L = ["def %s(a: int, b: int) -> bool:" % fn, '    """', "    post: _", '    """', "    return val_ok(%d, _sk.box(a, 0, %d), _sk.box(b, 0, %d))" % (ci, nl - 1, (nl - 1) if tier == "thorough" else 7)]
        obs.append(Ob(fn, "\n".join(L), sample="container %s over all pairs of leaves" % name, group="containers"))
    L = ["def hcyc(k: int) -> bool:", '    """', "    post: _", '    """', "    return cyc_ok(_sk.box(k, 0, 9))"]
    obs.append(Ob("hcyc", "\n".join(L), sample="self-referential list, dict, list-in-dict, deque, OrderedDict, list-tuple cycle, containers that reach themselves twice / through two routes, a shared acyclic element", group="cycles"))
    tw = "\n".join(["def twin0(a: int) -> bool:", '    """', "    post: _", '    """', "    val_ok(-1, _sk.box(a, 0, 3), 0)", "    return False"])
    obs.append(Ob("twin0", tw, twin=True, group="twin"))
    return {
        "preamble": PREAMBLE,
        "obligations": obs,
        "level": "exploration",
        "timeout": 1200.0,
        "path_timeout": 60.0,
        "batch": 2,
        "grade": "D (repr()/float formatting/codecs are C code that realises its argument, so symbolic payloads buy nothing; the selector box over concrete pools is exhausted)",
        "functions_encoded": ["hy.core.hy_repr: every registered printer for the documented value types", "hy.reader + hy.eval on the printed text"],
        "bounds": "%d leaf values (None, bools, ints incl. > 2**64, floats incl. inf/nan/-0.0/denormal, complex, str/bytes/bytearray with quotes, escapes, NUL, non-ASCII, keywords, Fraction, range, "
                  "slice, empty containers) and %d container constructors (list, tuple, dict, set, frozenset, deque, OrderedDict, Counter, defaultdict (list/int factory), ChainMap, a "
                  "depth-3 nesting) over pairs of leaves; 10 self-referential or sharing structures" % (nl, len(cs)),
        "outside": "deque with maxlen (printed without it); arbitrary nesting depth and sizes (hypothesis-style generation); values of other types",
        "stubs": ["calls executed under crosshair.tracers.NoTracing"],
        "assumptions": ["equality is type-exact, distinguishes -0.0 from 0.0 and treats nan as equal to nan; dict/OrderedDict order compared; sets compared up to equality"],
    }


MANIFEST = {
    "engine": "A",
    "level": "exploration",
    "technique": "CrossHair/z3 as enumerator of a selector box over concrete value pools; hy.repr -> hy.read -> hy.eval composed and compared type-exactly",
    "text": "Every leaf value and every container over pairs of leaves is printed with hy.repr, read and evaluated; the result must have the same type and an equal value; self-referential "
            "containers must print with the placeholder and terminate. Claimed as exploration (grade D).",
    "note": "Exhaustive only inside the pools.",
}
