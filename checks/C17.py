"""C17: run-time tracebacks point at the line of the failing form (Engine B, fault site symbolic)."""
import re

from vf import gen, skel
from vf.xh import Ob
from checks import C09 as _c09

PREAMBLE = skel.PREAMBLE + "from checks.C17 import line_ok as _line_ok\n"


def atomic(x):
    if not isinstance(x, tuple):
        return True
    if x and x[0] in ("str", ":", "raw"):
        return True
    if x and x[0] in ("E", "CM") and all(atomic(a) and not (isinstance(a, tuple) and a and a[0] not in ("str", ":", "E1", "CM", "E")) for a in x[1:]):
        return all(not isinstance(a, tuple) or a[0] in ("str", ":") or a == ("E1",) or (a[0] == "CM" and atomic(a)) for a in x[1:])
    return all(not isinstance(a, tuple) for a in x)


_CLOSE = {"[": "]", "#(": ")", "{": "}", "#{": "}"}


def render_ml(x, ind=0):
    """One sub-form per line (so that every effect site has its own line)."""
    pad = " " * ind
    if atomic(x):
        return pad + skel.render(x)
    h = x[0]
    if h in _CLOSE:
        inner = [render_ml(a, ind + 2) for a in x[1:]]
        return pad + h + "\n" + "\n".join(inner) + _CLOSE[h]
    if h in ("unpack-iterable", "unpack-mapping"):
        return pad + ("#* " if h == "unpack-iterable" else "#** ") + render_ml(x[1], ind + 3).lstrip()
    items = list(x[1:] if h == "call" else x)
    first = items[0]
    if isinstance(first, tuple):
        out = [pad + "(" + render_ml(first, ind + 1).lstrip()]
    else:
        out = [pad + "(" + skel.render(first)]
    for a in items[1:]:
        out.append(render_ml(a, ind + 2))
    return "\n".join(out) + ")"


def site_spans(text):
    """Independent line counter: for each `(E <k>` the 1-based first and last line of that form."""
    spans = {}
    dup = set()
    for m in re.finditer(r"\(E\s+(\d+)\b", text):
        start = m.start()
        depth = 0
        i = start
        in_str = False
        while i < len(text):
            c = text[i]
            if in_str:
                if c == "\\":
                    i += 1
                elif c == '"':
                    in_str = False
            elif c == '"':
                in_str = True
            elif c in "([{":
                depth += 1
            elif c in ")]}":
                depth -= 1
                if depth == 0:
                    break
            i += 1
        lo = text.count("\n", 0, start) + 1
        hi = text.count("\n", 0, i) + 1
        k = int(m.group(1))
        if k in spans:
            dup.add(k)
        spans[k] = (lo, hi)
    # a site number used twice (templates nested at depth 2 may both use their fixed site 90) does not name one line:
    # no fault is injected there
    for k in dup:
        del spans[k]
    return spans


def line_ok(prog, spans, filename, vals, k, sup=False):
    """Run the compiled program with a fault at site k; if the fault escapes or is
    caught, look at the traceback recorded when it was raised."""
    import traceback

    from vf.envobj import E1, mkCM

    seen = []
    log = []

    def E(site, v=None):
        log.append(site)
        if site == k:
            try:
                raise E1("fault@%d" % site)
            except E1 as e:
                # the traceback of the frames *below* E is what a user would see
                import sys

                f = sys._getframe(1)
                # innermost frame belonging to the compiled module
                while f is not None and f.f_code.co_filename != filename:
                    f = f.f_back
                seen.append(f.f_lineno if f is not None else -1)
                raise
        return v

    g = {}
    skel.fill_env(g, E, mkCM(E, sup), vals)
    if prog[0] != "ok":
        return False
    try:
        skel.run_code(prog, g)
    except Exception as e:
        if seen:
            # escaping exception: also check the real traceback object
            tb = traceback.extract_tb(e.__traceback__)
            mine = [fs for fs in tb if fs.filename == filename]
            if isinstance(e, E1) and str(e) == "fault@%d" % k and mine:
                lo, hi = spans[k]
                if not (lo <= mine[-1].lineno <= hi):
                    return False
    for ln in seen:
        lo, hi = spans[k]
        if not (lo <= ln <= hi):
            return False
    return True


MACRO_TEXTS = [
    ("user-macro", '(defmacro m1 [x] `(do ~x))\n(m1\n  (E 0 v0))\n(m1\n  (if (E 1 v1)\n    (E 2 v2)\n    (E 3 v3)))'),
    ("user-macro-wrap", '(defmacro twice [x] `(do ~x ~x))\n(twice\n  (E 0 v0))'),
    ("user-macro-fn", '(defmacro deffun [name body] `(defn ~name []\n  ~body))\n(deffun g\n  (E 0 v0))\n(g)'),
    ("when-cond", '(when (E 0 v0)\n  (E 1 v1)\n  (cond\n    (E 2 v2)\n      (E 3 v3)\n    True\n      (E 4 v4)))'),
    ("threading", '(defmacro -> [head #* args]\n  (setv ret head)\n  (for [node args]\n    (setv ret (hy.models.Expression [(get node 0) ret #* (cut node 1 None)])))\n  ret)\n(->\n  (E 0 v0)\n  (E 1)\n  (E 2))',
     # (E 1 ...) and (E 2 ...) are *built by the macro* with model constructors: their span is the macro call's span
     {1: (6, 9), 2: (6, 9)}),
    ("multiline-string", '(setv s "a\nb\nc")\n(E 0 v0)\n[s\n  (E 1 v1)]'),
    ("bracket-string", '(setv s #[[x\ny\n]])\n(E 0 v0)'),
    ("comment-lines", '; c1\n; c2\n(E 0 v0) ; trailing\n#_ (skipped\n  form)\n(E 1 v1)'),
    ("class-method", '(defclass C []\n  (setv a\n    (E 0 v0))\n  (defn m [self]\n    (E 1 v1)))\n(.m (C))'),
    ("decorator", '(defn [(fn [f]\n  (E 0 f))] g []\n  (E 1 v0))\n(g)'),
    ("default-arg", '(defn g [[p\n  (E 0 v0)]]\n  (E 1 p))\n(g)'),
    ("fstring", '(setv t f"a{\n(E 0 v0)\n}b{(E 1 v1)}")'),
]


# programs whose failing form raises by itself (operator / subscript / call protocol), not through an effect site:
# (name, text, exception class name, (first line, last line) of the raising form)
OP_TEXTS = [
    ("augassign-multi", '(setv total 5)\n(setv pad 0)\n(-= total\n  1\n  "a")', "TypeError", (3, 5)),
    ("augassign-multi-fn", '(defn f [acc]\n  (setv pad 0)\n  (+= acc\n    [1]\n    None)\n  acc)\n(f [])', "TypeError", (3, 5)),
    ("augassign-single", '(setv total 5)\n\n(-= total\n  "a")', "TypeError", (3, 4)),
    ("binop-nested", '(setv a 1)\n(setv b\n  (+ a\n    (* 2\n      None)))', "TypeError", (4, 5)),
    ("compare-chain", '(setv a 1)\n(print\n  (< a\n    2\n    "x"))', "TypeError", (3, 5)),
    ("subscript", '(setv xs [1])\n(setv y\n  (get xs\n    5))', "IndexError", (3, 4)),
    ("cut", '(setv xs 5)\n\n(cut xs\n  1)', "TypeError", (3, 4)),
    ("attr", '(setv o 1)\n\n\n(. o\n  nope)', "AttributeError", (4, 5)),
    ("call-noncallable", '(setv f 1)\n\n(f\n  2)', "TypeError", (3, 4)),
    ("unpack", '(setv v 1)\n(setv [a b]\n  v)', "TypeError", (2, 3)),
    ("star-arg", '(setv v 1)\n\n(print\n  #* v)', "TypeError", (3, 4)),
    ("fstring-format", '(setv v "s")\n\n(setv t f"{v\n :d}")', "ValueError", (3, 4)),
    ("unary", '(setv v "s")\n\n\n(-\n  v)', "TypeError", (4, 5)),
    ("in-lifted", '(setv v None)\n(print\n  (if v\n    1\n    (do (setv q 1)\n      (+ q\n         v))))', "TypeError", (6, 7)),
    ("assert", '(setv v 0)\n\n(assert v\n  "msg")', "AssertionError", (3, 4)),
    ("raise-form", '(setv v 0)\n\n\n(raise\n  (ValueError v))', "ValueError", (4, 5)),
    ("import", '(setv v 0)\n\n(import\n  no_such_module_vf)', "ModuleNotFoundError", (3, 4)),
    ("with-enter", '(setv v 0)\n\n(with [v]\n  1)', "TypeError", (3, 4)),
    ("for-iter", '(setv v 0)\n\n(for [x\n       v]\n  1)', "TypeError", (3, 5)),
    ("lfor-iter", '(setv v 0)\n(setv r\n  (lfor x\n    v\n    x))', "TypeError", (3, 5)),
    ("kwarg-dup", '(defn f [a] a)\n\n(f 1\n  :a 2)', "TypeError", (3, 4)),
    ("setattr", '(setv o 1)\n\n(setv o.x\n  2)', "AttributeError", (3, 4)),
    ("del", '(setv d {})\n\n(del\n  (get d 1))', "KeyError", (3, 4)),
    ("match-class", '(setv v 0)\n\n(match v\n  (v 1) 2)', "TypeError", (3, 4)),
]


def op_line_ok(text, exc_name, span, crlf):
    """Concrete: compile, run, and look at the innermost frame of the program's file in the traceback."""
    import traceback

    src = text.replace("\n", "\r\n") if crlf else text
    fname = "<c17_op>"
    prog = skel.compile_prog(src, filename=fname)
    if prog[0] != "ok":
        return False, "rejected: %r" % (prog[1:3],)
    g = {}
    try:
        skel.run_code(prog, g)
    except Exception as e:
        if type(e).__name__ != exc_name:
            return False, "raised %s instead of %s" % (type(e).__name__, exc_name)
        mine = [fs for fs in traceback.extract_tb(e.__traceback__) if fs.filename == fname]
        if not mine:
            return False, "no frame of the program in the traceback"
        ln = mine[-1].lineno
        if not (span[0] <= ln <= span[1]):
            return False, "traceback line %d, raising form spans lines %d-%d" % (ln, span[0], span[1])
        return True, ""
    return False, "did not raise"


def skeletons(tier):
    out = []
    for i, (name, sk) in enumerate(gen.depth1(fillers=["pe", "sx", "st", "sw", "sn", "sf"])):
        if tier == "thorough" or i % 3 == 0:
            out.append(("m:" + name, sk))
    for i, (name, sk) in enumerate(gen.depth1(fillers=["pe", "sx", "st", "sw"], in_fn=True)):
        if tier == "thorough" or i % 9 == 0:
            out.append(("f:" + name, ("call", ("fn", ("[",), sk))))
    for name, sk in gen.depth2(stride=499 if tier == "quick" else 29):
        out.append(("m2:" + name, sk))
    for i, (name, sk) in enumerate(_c09.skeletons("quick")):
        if tier == "thorough" or i % 3 == 0:
            out.append(("try/with:" + name, sk))
    return out


def harness(fn, text, info_src, twin=False, span_override=None):
    info = skel.scan(info_src)
    spans = site_spans(text)
    if span_override:
        spans.update(span_override)
    params, vals, pre = [], [], []
    for i in sorted(info["v"]):
        params.append("t%d: bool" % i)
        vals.append('("v%d", ("V", %d, t%d))' % (i, i, i))
    for i in sorted(info["x"]):
        params.append("x%d: int" % i)
        vals.append('("x%d", ("N", x%d))' % (i, i))
        pre.append("-2 <= x%d <= 3" % i)
    for i in sorted(info["xs"]):
        params.append("xs%d: List[int]" % i)
        vals.append('("xs%d", ("L", xs%d))' % (i, i))
        pre.append("len(xs%d) <= 2" % i)
    sites = sorted(spans)
    params.append("k: int")
    pre.append("k in %r" % (sites,))
    fname = "<c17_%s>" % fn
    L = ["P_%s = _sk.compile_prog(%r, filename=%r)" % (fn, text, fname), "SP_%s = %r" % (fn, spans),
         "def %s(%s) -> bool:" % (fn, ", ".join(params)), '    """']
    L += ["    pre: " + p for p in pre]
    L += ["    post: _", '    """']
    call = "_line_ok(P_%s, SP_%s, %r, [%s], k)" % (fn, fn, fname, ", ".join(vals))
    if twin:
        L += ["    " + call, "    return False"]
    else:
        L.append("    return " + call)
    return "\n".join(L), len(sites)


def spec(tier, seed):
    obs = []
    n = 0
    for name, sk in skeletons(tier):
        text = render_ml(sk)
        fn = "h%d" % n
        n += 1
        crlf = (n % 7 == 0)
        if crlf:
            # the same program with Windows line endings: line numbers must not change
            spans_lf = site_spans(text)
            text = text.replace("\n", "\r\n")
        src, ns = harness(fn, text, sk, span_override=spans_lf if crlf else None)
        if ns == 0:
            continue
        obs.append(Ob(fn, src, sample=name + (" [CRLF]" if crlf else "") + "\n" + text, group=name.split("[")[0].split("@")[0].split("<")[0]))
    for name, text, *over in MACRO_TEXTS:
        fn = "h%d" % n
        n += 1
        fake = tuple(re.findall(r"\b(?:v|x|xs)\d+\b", text))
        src, ns = harness(fn, text, ("do",) + fake, span_override=over[0] if over else None)
        obs.append(Ob(fn, src, sample=name + "\n" + text, group="macros-and-layout"))
    tw, _ = harness("twin0", render_ml(("if", ("E", 0, "v0"), ("E", 1, "v1"), ("E", 2, "v2"))), ("if", "v0", "v1", "v2"), twin=True)
    obs.append(Ob("twin0", tw, twin=True, group="twin"))
    def extra(tier_, seed_, workdir):
        recs = []
        for name, text, exc, span in OP_TEXTS:
            for crlf in (False, True):
                ok, detail = op_line_ok(text, exc, span, crlf)
                recs.append({"name": "op:%s%s" % (name, "/crlf" if crlf else ""), "verdict": "CONFIRMED" if ok else "POST_FAIL", "reproduces": None if ok else True,
                             "sample": "%s%s: %s raises %s in lines %d-%d" % (name, " [CRLF]" if crlf else "", text.replace("\n", " / "), exc, span[0], span[1]),
                             "cex": {"args": [], "kwargs": {}}, "replay_detail": detail, "paths": 1, "queries": 0, "solver_s": 0.0,
                             "group": "operator-raised", "twin": False})
        return recs

    return {
        "preamble": PREAMBLE,
        "obligations": obs,
        "extra": extra,
        "level": "fault_enumeration",
        "timeout": 90.0,
        "path_timeout": 30.0,
        "batch": 16,
        "grade": "S",
        "functions_encoded": [
            "hy.reader.hy_reader (positions attached to models; concrete at harness generation)",
            "hy.models.Object.replace / hy.compiler asty position copying, fix_missing_locations",
            "hy.core.result_macros statement lifting (positions of lifted statements), hy.macros.macroexpand position propagation",
        ],
        "bounds": "C01 depth-1 skeletons (%s), sampled function-level and depth-2 skeletons, C09 try/with skeletons (%s), laid out one sub-form per line, "
                  "plus %d hand-written multi-line programs (user macros, when/cond, multi-line strings, comments, classes, decorators, defaults, f-strings); "
                  "symbolic: the raising site k over every effect site, truthiness/ints/lists that make it reachable"
                  % ("every 3rd" if tier == "quick" else "all", "every 3rd" if tier == "quick" else "all", len(MACRO_TEXTS)),
        "outside": "exceptions raised by operators/builtins are covered only by the %d concrete hand-written programs of group operator-raised (LF and CRLF), not symbolically; column numbers;" % len(OP_TEXTS) + " code built at run time from model constructors (documented fallback to line 1)",
        "stubs": ["crosshair.util.getsourcelines wrapper for .hy-defined callees"],
        "assumptions": ["line spans come from an independent bracket-matching line counter over the rendered text (checks/C17.py site_spans), not from the reader",
                        "the observed line is that of the innermost frame of the compiled file at the moment the site raises, and of the last traceback entry of that file when the exception escapes"],
        "rule": "one evaluation = one symbolic path (a class of (raising site, input) assignments); non-trivial = >= 2 feasible paths",
    }


MANIFEST = {
    "engine": "B",
    "level": "fault_enumeration",
    "technique": "CrossHair/z3: raising site as solver variable over real-compiler output; frame line number vs independently computed source span",
    "text": "Each skeleton is rendered one sub-form per line and compiled by the real pipeline; the site that raises is a solver variable (with the inputs that make it reachable); "
            "at the raise, the innermost frame of the compiled file (and the last traceback entry for escaping exceptions) must report a line inside that form's span.",
    "note": "Bounded by the skeleton set. Trusted: CPython line tables, CrossHair (frames/tracebacks intact under tracing), z3.",
}
