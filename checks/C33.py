"""C33: hy.unmangle inverts hy.mangle up to mangling (Engine A, grade R)."""
from checks.C32 import ALPH, ASCII, string_obs, cand_obs, CANDS, DOTTED_CANDS
from vf.xh import Ob

PREAMBLE = '''\
import sys
from checks.C32 import mangle_ok, unmangle_ok, ALPH, ASCII
'''


def spec(tier, seed):
    maxlen = 2 if tier == "quick" else 3
    obs = string_obs("unmangle_ok", "ALPH", ALPH, maxlen, "alphabet")
    if tier == "thorough":
        obs += string_obs("unmangle_ok", "ASCII", ASCII, 2, "ascii", prefix="a")
    # names built from mangling-relevant fragments (hyphens, underscores, escapes)
    frags = ["-", "_", "a", "X", "hyx", "Xa", "U41", "H", "!", "é"]
    L = ["FR = %r" % frags, "def hfrag(i: int, j: int, k: int) -> bool:", '    """', "    pre: 0 <= i < %d and 0 <= j < %d and 0 <= k < %d" % (len(frags), len(frags), len(frags)),
         "    post: _", '    """', "    a = b = c = ''",
         "    for n in range(%d):" % len(frags), "        if i == n: a = FR[n]", "        if j == n: b = FR[n]", "        if k == n: c = FR[n]",
         "    return unmangle_ok(a + b + c)"]
    obs.append(Ob("hfrag", "\n".join(L), sample="unmangle(mangle(a+b+c)) for fragments %r" % frags, group="fragments"))
    obs += cand_obs(1, "hcand", "unmangle round trip", alone=("+\u0308",))
    obs += cand_obs(3, "hdotcand", "unmangle round trip (dotted names)")
    tw = "\n".join(["def twin0(rest: str) -> bool:", '    """', "    pre: len(rest) <= 1 and all(c in ALPH for c in rest)", "    post: _", '    """', "    unmangle_ok('a' + rest)", "    return False"])
    obs.append(Ob("twin0", tw, twin=True, group="twin"))
    return {
        "preamble": PREAMBLE,
        "obligations": obs,
        "level": "model_checking",
        "timeout": 300.0,
        "path_timeout": 30.0,
        "batch": 1,
        "grade": "R",
        "functions_encoded": ["hy.reader.mangling.unmangle", "hy.reader.mangling.mangle"],
        "bounds": "names of length 1..%d over the alphabet %r (names whose part after the leading underscores starts with hyx_ excluded, as the property states)%s; all triples of the "
                  "fragments %r" % (maxlen, ALPH, " plus printable ASCII at length <= 2" if tier == "thorough" else "", frags),
        "outside": "every other Unicode code point; longer names except the %d + %d hand-picked ones (dotted names included among them)" % (len(CANDS), len(DOTTED_CANDS)),
        "stubs": [],
        "assumptions": [],
    }


MANIFEST = {
    "engine": "A",
    "level": "model_checking",
    "technique": "CrossHair/z3 on the real mangle/unmangle with a symbolic string over a bounded alphabet",
    "text": "For every string in the box (and not excluded by the hyx_ precondition) unmangle(mangle(s)) must not raise and must mangle back to mangle(s).",
    "note": "Grade R: exhaustive only inside the alphabet x length box.",
}
