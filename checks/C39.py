"""C39: hy.eval returns the last value and restores the caller's `hy` binding (Engine A, fault point symbolic)."""
from vf.xh import Ob

PREAMBLE = '''\
import sys
from vf import skel as _sk
from checks.C39 import eval_ok, eval_twice_ok
'''

PROGS = None
SENT = object()


class _Empty:
    def __len__(self):
        return 0


# what the dictionary holds under "hy" beforehand: index 0 = no entry; truthy and falsy objects alike must come back
PRIOR = [None, SENT, None, 0, "", (), False, _Empty(), "module"]


def prior(hv):
    if PRIOR[hv] == "module" and isinstance(PRIOR[hv], str):
        import hy

        return hy
    return PRIOR[hv]


def _progs():
    global PROGS
    if PROGS is None:
        import hy

        PROGS = [
            hy.read_many("(E 0 x) (setv y (E 1 x)) (E 2 (+ y 1))"),
            hy.read("(do (E 0 x) (try (E 1 x) (finally (E 2 0))) (if (> x 0) (E 3 (+ x 1)) (E 4 (+ x 1))))"),
            hy.read("(do (import math) (setv hy2 hy) (E 0 x) (lfor i [1 2] :do (setv q i) (E 1 i)) (E 2 (+ x 1)))"),
            hy.read("(E 0 (fn [] 1)) (E 1 (+ x 1)"[:-0] + ")") if False else hy.read("(do (defmacro m [a] `(E 1 ~a)) (E 0 x) (m (+ x 1)))"),
            hy.read("(do (E 0 x) (if 1))"),  # malformed: compile-time error
            hy.read("(do (E 0 x) (setv hy 5) (E 1 (+ x 1)))"),  # the program itself assigns hy
            hy.read("(do (E 0 x) (del hy) (E 1 (+ x 1)))"),  # ... or deletes it
        ]
    return PROGS


class Fault(Exception):
    pass


def _mk(k, log):
    def E(site, v=None):
        log.append(site)
        if site == k:
            raise Fault(site)
        return v

    return E


def _one(pi, hv, give_locals, same_dict, k, x, why):
    has_hy = hv != 0
    was = prior(hv)
    import hy
    from hy.errors import HyLanguageError

    model = _progs()[pi]
    if pi == 0:
        from vf import strsym
        import hy as _hy

        # a Lazy stream of top-level forms is consumed by evaluation: read it afresh for every call
        model = strsym.untraced(_hy.read_many, "(E 0 x) (setv y (E 1 x)) (E 2 (+ y 1))")
    log = []
    g = {}
    g["E"] = _mk(k, log)
    g["x"] = x
    if has_hy:
        g["hy"] = was
    if give_locals and not same_dict:
        l = {}
        l_has = has_hy  # same choice for the second dict
        if l_has:
            l["hy"] = was
    elif give_locals:
        l = g
        l_has = has_hy
    else:
        l = None
        l_has = None
    try:
        if l is None:
            v = hy.eval(model, g)
        else:
            v = hy.eval(model, g, l)
        out = ("v", v)
    except Fault as e:
        out = ("fault", e.args[0])
    except HyLanguageError:
        out = ("compile-error",)
    except (NameError, AttributeError, UnboundLocalError):
        out = ("runtime-error",)
    # the binding
    dicts = [("globals", g, has_hy)]
    if l is not None and l is not g:
        dicts.append(("locals", l, l_has))
    for nm, d, had in dicts:
        if pi in (5, 6) and nm == ("locals" if (l is not None and l is not g) else "globals"):
            # the program itself rebinding/deleting hy in the namespace it runs in: whatever it did is undone/kept by the same rule
            pass
        if ("hy" in d) != had:
            if why is not None:
                why.append("%s dict: had a hy entry before: %r (value %r); has one after: %r (outcome %r)" % (nm, had, was, "hy" in d, out))
            return False
        if had and d["hy"] is not was:
            if why is not None:
                why.append("%s dict: hy entry %r replaced by %r (outcome %r)" % (nm, was, d["hy"], out))
            return False
    # the value
    if out[0] == "v":
        if pi == 4:
            if why is not None:
                why.append("malformed program evaluated to %r" % (out[1],))
            return False
        if out[1] != x + 1:
            if why is not None:
                why.append("value %r, expected the last form's value %r" % (out[1], x + 1))
            return False
    elif out[0] == "fault":
        if out[1] != k:
            return False
    elif out[0] == "compile-error":
        if pi != 4:
            if why is not None:
                why.append("unexpected compile error")
            return False
    else:
        if pi not in (5, 6):
            if why is not None:
                why.append("unexpected runtime error %r" % (out,))
            return False
    return True


def eval_ok(pi, hv, give_locals, same_dict, k, x, why=None):
    from vf import skel

    if why is None and skel.EXPLAIN[0]:
        del skel.LAST_WHY[:]
        why = skel.LAST_WHY
    return _one(pi, hv, give_locals, same_dict, k, x, why)


def eval_twice_ok(p1, p2, hv, k1, k2, x, why=None):
    """Two calls on the same dictionary: the second must behave as if the first (possibly failed) had not happened."""
    from vf import skel

    if why is None and skel.EXPLAIN[0]:
        del skel.LAST_WHY[:]
        why = skel.LAST_WHY
    import hy
    from hy.errors import HyLanguageError

    g = {}
    log = []
    g["x"] = x
    has_hy = hv != 0
    was = prior(hv)
    if has_hy:
        g["hy"] = was
    for pi, k in ((p1, k1), (p2, k2)):
        g["E"] = _mk(k, log)
        model = _progs()[pi]
        if pi == 0:
            from vf import strsym

            model = strsym.untraced(hy.read_many, "(E 0 x) (setv y (E 1 x)) (E 2 (+ y 1))")
        try:
            v = hy.eval(model, g)
            if pi not in (4,) and v != x + 1:
                if why is not None:
                    why.append("call of program %d returned %r" % (pi, v))
                return False
        except (Fault, HyLanguageError, NameError, AttributeError, UnboundLocalError):
            pass
        if ("hy" in g) != has_hy or (has_hy and g["hy"] is not was):
            if why is not None:
                why.append("after program %d (fault %d): hy binding not restored" % (pi, k))
            return False
    return True


def spec(tier, seed):
    _progs()
    obs = []
    nsites = [3, 5, 3, 2, 1, 2, 2]
    for pi in range(7):
        fn = "h%d" % pi
        L = ["def %s(hv: int, give_locals: bool, same_dict: bool, k: int, x: int) -> bool:" % fn, '    """', "    post: _", '    """',
             "    return eval_ok(%d, _sk.box(hv, 0, %d), give_locals, same_dict, _sk.box(k, -1, %d), x)" % (
                 pi, (len(PRIOR) - 1) if (tier == "thorough" or pi == 0) else (3 if pi in (5, 6) else 1), nsites[pi] - 1)]
        obs.append(Ob(fn, "\n".join(L), sample="hy.eval(%s, globals[, locals]) with/without a prior hy entry, fault at each effect site or none" % (
            ["3 top-level forms", "try/finally + if", "import + setv hy2 + lfor", "defmacro + macro call", "malformed (if 1): compile-time error", "the program itself assigns hy",
             "the program itself deletes hy"][pi]), group="single"))
    fn = "hpair"
    L = ["def hpair(p1: int, p2: int, hv: int, k1: int, k2: int, x: int) -> bool:", '    """', "    post: _", '    """',
         "    return eval_twice_ok(_sk.box(p1, 0, 6), _sk.box(p2, 0, 6), _sk.box(hv, 0, %d), _sk.box(k1, -1, 2), _sk.box(k2, -1, 2), x)" % (len(PRIOR) - 1)]
    if tier == "thorough":
        obs.append(Ob(fn, "\n".join(L), sample="two hy.eval calls in sequence on one dict, each possibly failing at a symbolic site", group="sequence", timeout=3000.0))
    else:
        for p2 in (0, 4):
            L2 = list(L)
            L2[0] = L2[0].replace("def hpair(", "def hpair%d(" % p2)
            L2[-1] = "    return eval_twice_ok((0, 1, 5)[_sk.box(p1, 0, 2)], %d, _sk.box(hv, 0, 2), _sk.box(k1, -1, 2), _sk.box(k2, -1, 0), x)" % p2
            obs.append(Ob("hpair%d" % p2, "\n".join(L2), sample="two hy.eval calls in sequence on one dict (quick: programs {0,1,5} then %s; prior hy in {absent, object, None})" % (
                "program 0" if p2 == 0 else "the malformed program"), group="sequence", timeout=900.0))
    tw = "\n".join(["def twin0(hv: int, k: int, x: int) -> bool:", '    """', "    post: _", '    """', "    eval_ok(0, _sk.box(hv, 0, 2), False, False, _sk.box(k, -1, 2), x)", "    return False"])
    obs.append(Ob("twin0", tw, twin=True, group="twin"))
    return {
        "preamble": PREAMBLE,
        "obligations": obs,
        "level": "fault_enumeration",
        "timeout": 900.0,
        "path_timeout": 120.0,
        "batch": 1,
        "grade": "S (prior hy entry, give_locals, same_dict, fault site, x are solver variables; the whole of hy.eval incl. the compiler is traced)",
        "functions_encoded": ["hy.compiler.hy_eval_user (the hy save/restore logic)", "hy.compiler.hy_eval, hy_compile (traced)", "hy.macros (defmacro at eval time)"],
        "bounds": "7 programs (several top-level forms; try/finally and if; import + comprehension; defmacro + use; a malformed form that fails at compile time; programs that assign / delete hy themselves); "
                  "the prior hy entry absent or one of 8 objects (an arbitrary object, None, 0, '', (), False, an object with len 0, the hy module); "
                  "locals omitted / same dict / separate dict; fault at every effect site or none; unbounded x; sequences of two calls on one dict",
        "outside": "hy.eval without globals (caller-frame lookup); the module= and macros= arguments",
        "stubs": [],
        "assumptions": ["'the dictionary' = every dict passed (globals, and locals when it is a different dict)"],
        "rule": "one evaluation = one symbolic path (a class of (flags, fault site, x) assignments)",
    }


MANIFEST = {
    "engine": "A",
    "level": "fault_enumeration",
    "technique": "CrossHair/z3 symbolic execution of the real hy.eval with symbolic dictionary state flags, fault site and value",
    "text": "The real hy.eval is executed by CrossHair on concrete programs with solver-chosen: prior hy entry or not, locals omitted/same/separate, the effect site that raises (or a compile-time "
            "error), and the value x; afterwards every dictionary passed must have a hy entry exactly when it had one, the same object, and a successful call must return the last form's value. "
            "Two calls in sequence are checked the same way.",
    "note": "Bounded by the program list. Trusted: CrossHair, z3.",
}
