"""C36: macroexpand-1 expands one step and macroexpand reaches a fixpoint (grade D: chain length and start by selectors)."""
from vf import readerlib, strsym
from vf.xh import Ob

PREAMBLE = '''\
import sys
from vf import skel as _sk
from checks.C36 import chain_ok, misc_ok, N_MISC
'''

SETUP = '''
(defmacro c0 [x] `(c1 ~x 0))
(defmacro c1 [x y] `(c2 [~x ~y]))
(defmacro c2 [x] `(c3 ~@x :k))
(defmacro c3 [#* a] `(c4 ~a))
(defmacro c4 [a] `(notamacro ~a 4))
(defmacro to-core [x] `(when ~x 1))
(defmacro to-setv [x] `(setv ~x 2))
(defmacro to-atom [] 5)
(defmacro to-list [x] [x x])
(defmacro ident [x] x)
(defmacro self-loop [n] (if (> n 0) `(self-loop ~(- n 1)) "done"))
(defmacro to-dotted [x] `(m.c0 ~x))
'''

EXPECT_CHAIN = ["(c0 q)", "(c1 q 0)", "(c2 [q 0])", "(c3 q 0 :k)", "(c4 #(q 0 :k))", "(notamacro #(q 0 :k) 4)"]


def _module():
    import sys
    import types

    import hy

    nm = "vfmod36"
    if nm not in sys.modules:
        m = types.ModuleType(nm)
        sys.modules[nm] = m
        hy.eval(hy.read_many(SETUP), m.__dict__, module=m)
        m.hy = hy
    return sys.modules[nm]


def _deep(m):
    import copy

    return copy.deepcopy(m)


def _chain(start, steps):
    import hy

    mod = _module()
    form = hy.read(EXPECT_CHAIN[start])
    keep = _deep(form)
    cur = form
    for k in range(steps):
        nxt = hy.macroexpand_1(cur, module=mod)
        idx = min(start + k + 1, len(EXPECT_CHAIN) - 1)
        want = hy.read(EXPECT_CHAIN[idx])
        if not readerlib.meq(hy.as_model(nxt), want):
            return "macroexpand-1 applied %d time(s) to %s gives %s, expected %s" % (k + 1, EXPECT_CHAIN[start], hy.repr(nxt), EXPECT_CHAIN[idx])
        cur = nxt
    full = hy.macroexpand(form, module=mod)
    if not readerlib.meq(hy.as_model(full), hy.read(EXPECT_CHAIN[-1])):
        return "macroexpand of %s gives %s, expected the fixpoint %s" % (EXPECT_CHAIN[start], hy.repr(full), EXPECT_CHAIN[-1])
    if not readerlib.meq(form, keep):
        return "expansion mutated its input: %s became %s" % (hy.repr(keep), hy.repr(form))
    return None


MISC = [
    # (form text, expected macroexpand-1 text, expected macroexpand text)
    ("(notamacro 1)", "(notamacro 1)", "(notamacro 1)"),
    ("x", "x", "x"),
    ("5", "5", "5"),
    ("[c0 1]", "[c0 1]", "[c0 1]"),
    ("()", "()", "()"),
    ("(to-atom)", "5", "5"),
    ("(to-list z)", "[z z]", "[z z]"),
    ("(to-core v)", "(when v 1)", None),          # `when` is a core macro written in Hy: expands further
    ("(to-setv v)", "(setv v 2)", "(setv v 2)"),  # setv is a core macro that returns compiler results: left as is
    ("(setv a 1)", "(setv a 1)", "(setv a 1)"),
    ("(if a b c)", "(if a b c)", "(if a b c)"),
    ("(self-loop 3)", "(self-loop 2)", "\"done\""),
    ("((c0 1) 2)", "((c0 1) 2)", "((c0 1) 2)"),
    ("(c0)", "ERROR", "ERROR"),
    ("(f (c0 1))", "(f (c0 1))", "(f (c0 1))"),
]
# core forms are left as they are, whatever their implementation hands to the compiler (a Result or a bare ast node),
# directly and at the end of a user-macro chain
CORE_FORMS = ["(assert x)", "(break)", "(continue)", "(return)", "(return 1)", "(global g)", "(nonlocal x)", "(lfor x xs x)", "(dfor x xs x x)", "(gfor x xs x)", "(sfor x xs x)",
              "(+)", "(*)", "(and)", "(or)", "(setv)", "(del)", "(global)", "(+ 1 1)", "(do)", "(quote x)", "(fn [] 1)", "(while x)", "(try x (except []))", "(with [a b] c)",
              "(import m)", "(defclass C [])", "(match x 1 2)", "(raise)", "(yield)", "(await x)", "(cut x 1)", "(get x 1)", "(. a b)", "(for [x xs] x)",
              "(defn f [] 1)", "(not x)", "(in a b)", "(deftype T int)", "(annotate x int)", "(let [a 1] a)", "(eval-when-compile)", "(pragma)", "(chainc a < b)", "(setx a 1)",
              "(if a b c)"]
for _f in CORE_FORMS:
    MISC.append((_f, _f, _f))
    MISC.append(("(ident %s)" % _f, _f, _f))
N_MISC = len(MISC)


def _misc(i):
    import hy

    mod = _module()
    text, want1, wantn = MISC[i]
    form = hy.read(text)
    keep = _deep(form)

    def call(fn):
        try:
            return (hy.macroexpand_1 if fn.endswith("-1") else hy.macroexpand)(form, module=mod)
        except Exception as e:
            return ("ERROR", type(e).__name__)

    r1 = call("hy.macroexpand-1")
    rn = call("hy.macroexpand")
    for got, want, nm in ((r1, want1, "macroexpand-1"), (rn, wantn, "macroexpand")):
        if want is None:
            # must not be the unexpanded `when` form any more, and must not still have a macro head
            if (type(got) is tuple) or (isinstance(got, hy.models.Expression) and got and got[0] == hy.models.Symbol("when")):
                return "%s of %s gives %r, expected `when` to be expanded further" % (nm, text, got)
            continue
        if want == "ERROR":
            if not ((type(got) is tuple) and got[0] == "ERROR"):
                return "%s of %s (wrong arity) should raise, got %s" % (nm, text, hy.repr(got))
            continue
        if (type(got) is tuple):
            return "%s of %s raised %s" % (nm, text, got[1])
        if not readerlib.meq(hy.as_model(got), hy.read(want)):
            return "%s of %s gives %s, expected %s" % (nm, text, hy.repr(got), want)
    if not readerlib.meq(form, keep):
        return "expansion mutated its input %s" % text
    return None


def chain_ok(start, steps, why=None):
    from vf import skel

    if why is None and skel.EXPLAIN[0]:
        del skel.LAST_WHY[:]
        why = skel.LAST_WHY
    r = strsym.untraced(_chain, start, steps)
    if r is not None and why is not None:
        why.append(r)
    return r is None


def misc_ok(i, why=None):
    from vf import skel

    if why is None and skel.EXPLAIN[0]:
        del skel.LAST_WHY[:]
        why = skel.LAST_WHY
    r = strsym.untraced(_misc, i)
    if r is not None and why is not None:
        why.append(r)
    return r is None


def finding_key(ob, rec):
    return "%s" % (rec.get("replay_detail"),)


def spec(tier, seed):
    obs = []
    L = ["def hchain(start: int, steps: int) -> bool:", '    """', "    post: _", '    """', "    return chain_ok(_sk.box(start, 0, %d), _sk.box(steps, 0, 6))" % (len(EXPECT_CHAIN) - 1)]
    obs.append(Ob("hchain", "\n".join(L), sample="chain %r: macroexpand-1 applied 0..6 times from every start; macroexpand reaches the last element; input not mutated" % EXPECT_CHAIN, group="chains"))
    L = ["def hmisc(i: int) -> bool:", '    """', "    post: _", '    """', "    return misc_ok(_sk.box(i, 0, %d))" % (N_MISC - 1)]
    obs.append(Ob("hmisc", "\n".join(L), sample="forms %r" % ([m[0] for m in MISC],), group="misc"))
    tw = "\n".join(["def twin0(s: int) -> bool:", '    """', "    post: _", '    """', "    chain_ok(_sk.box(s, 0, 2), 1)", "    return False"])
    obs.append(Ob("twin0", tw, twin=True, group="twin"))
    return {
        "preamble": PREAMBLE, "obligations": obs, "level": "exploration", "timeout": 600.0, "path_timeout": 60.0, "batch": 1,
        "grade": "D", "functions_encoded": ["hy.core.util.macroexpand / macroexpand-1 / _macroexpand", "hy.macros.macroexpand (once / result_ok)"],
        "bounds": "a chain of 5 user macros expanding into one another (with splices and keyword arguments), every start and step count; %d further forms: non-macro heads, non-expressions, "
                  "empty expression, macros returning atoms and lists, expansion into a Hy-level core macro (when) and into a result macro (setv), direct result macros, a self-recursive "
                  "macro, a macro call in head / argument position, wrong arity, and %d core forms (every kind of core implementation: returning a Result, a bare ast node, "
                  "zero-argument operators, comprehensions) given directly and at the end of a user-macro chain" % (N_MISC, len(CORE_FORMS)),
        "outside": "macro environments passed explicitly (:macros); local macros", "stubs": ["runs executed under crosshair.tracers.NoTracing"],
        "assumptions": ["expected expansions written by hand"],
    }


MANIFEST = {
    "engine": "A", "level": "exploration",
    "technique": "CrossHair/z3 as enumerator of (start, step count) and form selectors; real hy.macroexpand-1 / hy.macroexpand compared with hand-written expansions",
    "text": "macroexpand-1 must advance exactly one link of a user-macro chain, macroexpand must reach the chain's end, result macros must be left as they are, non-macro forms unchanged, and "
            "the input model must not be mutated. Claimed as exploration (grade D).",
    "note": "Only the listed macros and forms.",
}
