"""C34: a Hy name means the same Python identifier in every construct (grade D with symbolic bound values)."""
from vf.xh import Ob

PREAMBLE = '''\
import sys
from vf import skel as _sk
from checks.C34 import name_ok, pair_ok, NAMES
'''

NAMES = ["a-b", "a_b", "a!", "-a", "_-a", "__a-b", "*1", "ｆoo", "foo", "a?", "é-é", "is-not", "a-b-", "ａ-b", "valid?", "x->y", "<3", "hyx_XplusHsignX", "with", "p*"]

BINDERS = ["setv", "defn", "defclass", "param", "kwarg", "attr", "dot-form-attr", "import-as", "defmacro", "for", "with-as", "except-as", "let", "global", "setx", "lfor-leak", "fn-default",
           "kw-only-param", "match-capture", "del", "kw-lookup", "kw-lookup-default", "kw-lookup-var", "method-kwarg"]


def program(binder, s):
    """-> (text, expression text whose value is the bound value / probe)"""
    if binder == "setv":
        return "(setv %s val)" % s
    if binder == "defn":
        return "(defn %s [] val) (setv %s (%s))" % (s, s, s)
    if binder == "defclass":
        return "(defclass %s [] (setv marker val)) (setv %s (. %s marker))" % (s, s, s)
    if binder == "param":
        return "(setv out ((fn [%s] %s) val)) (setv %s out)" % (s, s, s)
    if binder == "kwarg":
        return "(setv KW ((fn [#** kw] kw) :%s val))" % s
    if binder == "attr":
        return "(setv o (OBJ)) (setv o.%s val) (setv ATTRS (vars o))" % s
    if binder == "dot-form-attr":
        return "(setv o (OBJ)) (setv (. o %s) val) (setv ATTRS (vars o)) (setv READ (. o %s))" % (s, s)
    if binder == "import-as":
        return "(import math :as %s) (import math) (setv %s (if (is %s math) val None))" % (s, s, s)
    if binder == "defmacro":
        return "(defmacro %s [] 'val) (setv MACRO (%s))" % (s, s)
    if binder == "for":
        return "(for [%s [val]] None)" % s
    if binder == "with-as":
        return "(with [%s (CMV val)] None)" % s
    if binder == "except-as":
        return "(try (raise (EXC val)) (except [%s EXC] (setv CAUGHT (get %s.args 0))))" % (s, s)
    if binder == "let":
        return "(let [%s val] (setv LETREAD %s))" % (s, s)
    if binder == "global":
        return "(defn g [] (global %s) (setv %s val)) (g)" % (s, s)
    if binder == "setx":
        return "(when (setx %s val) None)" % s
    if binder == "lfor-leak":
        return "(lfor i [1] (setx %s val))" % s
    if binder == "fn-default":
        return "(setv out ((fn [[%s val]] %s))) (setv %s out)" % (s, s, s)
    if binder == "kw-only-param":
        return "(setv out ((fn [* %s] %s) :%s val)) (setv %s out)" % (s, s, s, s)
    if binder == "match-capture":
        return "(match val %s None)" % s
    if binder == "del":
        return "(setv %s val) (setv COPY %s) (del %s)" % (s, s, s)
    if binder == "kw-lookup":
        # (:s obj) looks up the mangled name
        return "(setv D (dict :%s val)) (setv LOOK (:%s D))" % (s, s)
    if binder == "kw-lookup-default":
        return "(setv D (dict :%s val)) (setv LOOK (:%s D \"dflt\")) (setv MISS (:%s {} \"dflt\"))" % (s, s, s)
    if binder == "kw-lookup-var":
        return "(setv D (dict :%s val) k :%s) (setv LOOK (k D \"dflt\"))" % (s, s)
    if binder == "method-kwarg":
        return "(setv o (OBJ)) (setv o.m (fn [#** kw] kw)) (setv KW (.m o :%s val)) (setv KW2 (. o (m :%s val)))" % (s, s)


class _OBJ:
    pass


class _CMV:
    def __init__(self, v):
        self.v = v

    def __enter__(self):
        return self.v

    def __exit__(self, *a):
        return False


class _EXC(Exception):
    pass


def run(text, val):
    from vf import skel

    from vf import strsym

    prog = strsym.untraced(skel.compile_prog, text)  # the program text is concrete: only the run is traced (val is symbolic)
    if prog[0] != "ok":
        return ("rejected", prog[1:3])
    g = {"val": val, "OBJ": _OBJ, "CMV": _CMV, "EXC": _EXC}
    try:
        skel.run_code(prog, g)
    except Exception as e:
        return ("raised", type(e).__name__, str(e)[:80])
    return ("ok", g)


def name_ok(bi, ni, val, why=None):
    import hy
    from vf import skel

    if why is None and skel.EXPLAIN[0]:
        del skel.LAST_WHY[:]
        why = skel.LAST_WHY
    s = NAMES[ni]
    b = BINDERS[bi]
    py = hy.mangle(s)
    r = run(program(b, s), val)

    def bad(msg):
        if why is not None:
            why.append("%s with name %r (Python identifier %r): %s" % (b, s, py, msg))
        return False

    if r[0] != "ok":
        if r[0] == "rejected" and s in ("with", "is-not", "*1", "-a", "<3", "p*") and b in ("defmacro", "import-as", "match-capture", "defclass", "defn"):
            return True  # core-macro / pattern names that a construct may refuse with a Hy error
        return bad("program %r -> %r" % (program(b, s), r[:3]))
    g = r[1]
    if b in ("kw-lookup", "kw-lookup-default", "kw-lookup-var"):
        if list(g["D"]) != [py]:
            return bad("dict key arrived as %r" % (list(g["D"]),))
        if g["LOOK"] != val:
            return bad("lookup gave %r" % (g["LOOK"],))
        if b == "kw-lookup-default" and g["MISS"] != "dflt":
            return bad("lookup in an empty dict gave %r" % (g["MISS"],))
        return True
    if b == "method-kwarg":
        for nm in ("KW", "KW2"):
            kw = g[nm]
            if not (len(kw) == 1 and py in kw and kw[py] == val):
                return bad("keyword argument of a method call arrived as %r" % (list(kw),))
        return True
    if b == "kwarg":
        kw = g["KW"]
        if not (len(kw) == 1 and py in kw and kw[py] == val):
            return bad("keyword argument arrived as %r" % (list(kw),))
        return True
    if b in ("attr", "dot-form-attr"):
        a = g["ATTRS"]
        if not (py in a and a[py] == val):
            return bad("attribute set as %r" % (list(a),))
        if b == "dot-form-attr" and g["READ"] != val:
            return bad("(. o name) read %r" % (g["READ"],))
        return True
    if b == "defmacro":
        return True if g["MACRO"] == val else bad("macro call gave %r" % (g["MACRO"],))
    if b == "except-as":
        return True if g["CAUGHT"] == val else bad("except variable gave %r" % (g["CAUGHT"],))
    if b == "let":
        if g["LETREAD"] != val:
            return bad("let read %r" % (g["LETREAD"],))
        if py in g:
            return bad("let binding leaked as %r" % py)
        return True
    if b == "del":
        if g["COPY"] != val or py in g:
            return bad("after del: copy %r, %r still bound: %r" % (g["COPY"], py, py in g))
        return True
    if py not in g:
        return bad("namespace has %r, not %r" % (sorted(k for k in g if not k.startswith("_") and k not in ("val", "OBJ", "CMV", "EXC", "hy", "out", "g", "math")), py))
    if g[py] != val:
        return bad("%r holds %r" % (py, g[py]))
    return True


def pair_ok(n1, n2, val, why=None):
    """Two names refer to the same binding exactly when their manglings are equal."""
    import hy
    from vf import skel

    if why is None and skel.EXPLAIN[0]:
        del skel.LAST_WHY[:]
        why = skel.LAST_WHY
    s1, s2 = NAMES[n1], NAMES[n2]
    same = hy.mangle(s1) == hy.mangle(s2)
    r = run("(setv %s val) (setv PROBE (try %s (except [NameError] \"unbound\")))" % (s1, s2), val)
    if r[0] != "ok":
        if why is not None:
            why.append("%r" % (r[:3],))
        return False
    got = r[1]["PROBE"]
    ok = (got == val) if same else (isinstance(got, str) and got == "unbound")
    if not ok and why is not None:
        why.append("bound %r, read %r: got %r; manglings %r / %r" % (s1, s2, got, hy.mangle(s1), hy.mangle(s2)))
    return ok


def spec(tier, seed):
    obs = []
    nn = len(NAMES)
    for bi, b in enumerate(BINDERS):
        fn = "h%d" % bi
        L = ["def %s(ni: int, val: int) -> bool:" % fn, '    """', "    post: _", '    """', "    return name_ok(%d, _sk.box(ni, 0, %d), val)" % (bi, nn - 1)]
        obs.append(Ob(fn, "\n".join(L), sample="construct %s with each name of %r, bound value symbolic" % (b, NAMES), group="constructs"))
    L = ["def hpair(n1: int, n2: int, val: int) -> bool:", '    """', "    post: _", '    """', "    return pair_ok(_sk.box(n1, 0, %d), _sk.box(n2, 0, %d), val)" % (nn - 1, nn - 1)]
    obs.append(Ob("hpair", "\n".join(L), sample="bind one name, read another: same binding iff manglings equal (all %d x %d pairs)" % (nn, nn), group="pairs"))
    tw = "\n".join(["def twin0(ni: int, val: int) -> bool:", '    """', "    post: _", '    """', "    name_ok(0, _sk.box(ni, 0, 3), val)", "    return False"])
    obs.append(Ob("twin0", tw, twin=True, group="twin"))
    return {
        "preamble": PREAMBLE, "obligations": obs, "level": "exploration", "timeout": 1800.0, "path_timeout": 120.0, "batch": 1,
        "grade": "D for names and constructs (selectors; compile step concrete), S for the bound value (unconstrained int)",
        "functions_encoded": ["hy.reader.mangling.mangle as applied by hy.compiler (compile_symbol, keyword arguments in _compile_collect), hy.core.result_macros (defn, defclass, lambda lists, "
                              "attribute access, import aliases, defmacro, with/except/for/let targets, match captures, global, del)", "hy.models.Keyword.__call__"],
        "bounds": "%d names that mangling changes or not (hyphens, trailing/leading hyphen and underscores, !, ?, *, <, >, NFKC-changing letters, a Python keyword, an already escaped name) x %d "
                  "constructs %r; all pairs of names for the same-binding rule" % (nn, len(BINDERS), BINDERS),
        "outside": "other names (see C32 for mangle itself); constructs not listed", "stubs": [],
        "assumptions": ["the Python-level namespace (globals dict, vars(obj), kwargs dict) is inspected for the key hy.mangle(name)"],
    }


MANIFEST = {
    "engine": "A", "level": "exploration",
    "technique": "CrossHair/z3 over a selector box of names x constructs with a symbolic bound value; compiled by the real compiler, Python namespace inspected for hy.mangle(name)",
    "text": "Each name is used in each binding construct; afterwards the Python-level namespace must hold the (symbolic) value under hy.mangle(name), and reading a second name reaches it exactly "
            "when the manglings are equal. Claimed as exploration (names and constructs are enumerated).",
    "note": "Exhaustive only inside the name pool and construct list.",
}
