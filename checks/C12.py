"""C12: compiler-introduced names are reserved (hy / _hy_*) and never clobber user names.

Solver part (Engine B): constructs that introduce temporaries are nested inside
each other with user variables (including names that look almost like
temporaries) live across them; every value is symbolic, so a clash between two
temporaries or with a user name changes some observable for some input.
Static part (supplementary, no solver): every name in every compiled skeleton
AST that is not a program name must be `hy` or start with `_hy_`.
"""
import ast
import re

from vf import gen, skel
from vf.xh import Ob
from checks import C02 as _c02, C09 as _c09

TEMP_TPLS = ("if", "cond", "when", "and", "or", "with-body", "with-2", "try", "try-fin", "lfor", "lfor-if", "dfor", "gfor",
             "while-cond-else", "setx-in-call", "fn-call", "return-if", "call2", "list")
LOOKALIKES = ["hy_anon_1", "__hy_anon_1", "_hyx_anon_1", "_Hy_anon_2", "anon_1", "_hy"]


def family(tier):
    T = dict(gen.templates())
    tpls = [(n, T[n]) for n in TEMP_TPLS]
    out = []
    stride = 7 if tier == "quick" else 1
    d2 = gen.depth2(outer_fillers=("st", "sw", "sx"), inner_tpls=tpls, outer_tpls=tpls, stride=stride)
    for i, (name, sk) in enumerate(d2):
        # user variables that resemble temporaries, live across the construct
        pre = []
        post = []
        for j, nm in enumerate(LOOKALIKES):
            pre += [nm, "v%d" % (40 + j)]
            post.append(nm)
        sk2 = ("do", ("setv",) + tuple(pre), ("setv", "res", sk), ("#(", "res") + tuple(post))
        out.append((name, sk2))
    return out


def scan_names(tree):
    names = set()
    for node in ast.walk(tree):
        if isinstance(node, ast.Name):
            names.add(node.id)
        elif isinstance(node, ast.arg):
            names.add(node.arg)
        elif isinstance(node, (ast.FunctionDef, ast.AsyncFunctionDef, ast.ClassDef)):
            names.add(node.name)
        elif isinstance(node, ast.alias):
            names.add((node.asname or node.name).split(".")[0])
        elif isinstance(node, ast.ExceptHandler) and node.name:
            names.add(node.name)
        elif isinstance(node, (ast.MatchAs, ast.MatchStar)) and node.name:
            names.add(node.name)
        elif isinstance(node, ast.MatchMapping) and node.rest:
            names.add(node.rest)
        elif isinstance(node, (ast.Global, ast.Nonlocal)):
            names.update(node.names)
        elif isinstance(node, ast.Attribute):
            names.add(node.attr)
        elif isinstance(node, ast.keyword) and node.arg:
            names.add(node.arg)
    return names


def program_names(sk, acc=None):
    import hy

    acc = set() if acc is None else acc
    if isinstance(sk, str):
        for part in sk.lstrip(".").split("."):
            if part:
                try:
                    acc.add(hy.mangle(part))
                except Exception:
                    pass
    elif isinstance(sk, tuple) and sk:
        if sk[0] == "str":
            return acc
        if sk[0] == ":":
            acc.add(hy.mangle(sk[1]))
            return acc
        if sk[0] == "raw":
            for tok in re.findall(r"[^\s()\[\]{}\"#:']+", sk[1]):
                program_names(tok, acc)
            return acc
        for a in sk:
            program_names(a, acc)
    return acc


def spec(tier, seed):
    obs = []
    fam = family(tier)
    for n, (name, sk) in enumerate(fam):
        fn = "h%d" % n
        src, text = skel.harness_src(fn, sk, sup=False)
        obs.append(Ob(fn, src, sample=name + "  " + text, group="nest/" + name.split("@")[0]))
    tw, _ = skel.harness_src("twin0", fam[0][1], twin=True)
    obs.append(Ob("twin0", tw, twin=True, group="twin"))

    def extra(tier_, seed_, workdir):
        """Static scan of compiled ASTs (no solver involved)."""
        from checks import C01 as _c01

        progs = list(fam)
        progs += _c01.skeletons("quick")
        for op in ("and", "or"):
            for ks in _c02.patterns("quick")[::3]:
                progs.append(("c02", _c02.build(op, ks)))
        progs += _c09.skeletons("quick")
        bad = []
        nscanned = 0
        temps = set()
        for name, sk in progs:
            p = skel.compile_prog(skel.render(sk))
            if p[0] != "ok":
                continue
            nscanned += 1
            # __debug__ is Python's compile-time constant (used for assert), not a variable the compiler introduces
            allowed = program_names(sk) | {"hy", "E", "CM", "F", "E1", "E2", "E3", "__debug__"}
            for tree in (p[3], p[4]):
                for nm in scan_names(tree):
                    if nm in allowed:
                        continue
                    if nm == "hy" or nm.startswith("_hy_"):
                        temps.add(re.sub(r"\d+", "N", nm))
                        continue
                    bad.append((name, skel.render(sk)[:200], nm))
        recs = [{"name": "static-scan", "verdict": "CONFIRMED" if not bad else "POST_FAIL", "reproduces": None if not bad else True,
                 "sample": "%d compiled skeleton ASTs scanned; temporaries seen: %s" % (nscanned, sorted(temps)),
                 "cex": {"args": [], "kwargs": {}}, "replay_detail": "non-reserved compiler-introduced names: %r" % bad[:5],
                 "paths": nscanned, "queries": 0, "solver_s": 0.0, "group": "static-scan", "twin": False, "nontrivial": True}]
        return recs

    return {
        "preamble": skel.PREAMBLE,
        "obligations": obs,
        "extra": extra,
        "level": "translation_validation",
        "timeout": 120.0,
        "path_timeout": 30.0,
        "batch": 12,
        "grade": "S (nesting family) + static AST scan (no solver)",
        "functions_encoded": [
            "hy.compiler.HyASTCompiler.get_anon_var / temp_if reuse, Result.rename",
            "hy.core.result_macros: compile_if, compile_logical_or_and_and_operator, compile_with_expression, compile_try_expression, "
            "compile_comprehension (generator-function names), compile_function_lambda (lifted defs), except-variable / let renaming (hy.scoping)",
            "hy.core.util.gensym prefix (via macros that use it: cond, when)",
        ],
        "bounds": "nesting family: %d temporary-introducing templates, each value slot of each filled with each of the others instantiated with an "
                  "{if-temporary, try-temporary, setv} filler (%s), user variables %s live across the construct; all truth values/ints/lists symbolic. "
                  "Static scan: every compiled skeleton of this family and of the C01/C02/C09 quick sets."
                  % (len(TEMP_TPLS), "every 7th" if tier == "quick" else "all", LOOKALIKES),
        "outside": "programs outside the skeleton languages; names introduced by user macros; attribute names on objects the program does not own",
        "stubs": ["crosshair.util.getsourcelines wrapper for .hy-defined callees"],
        "assumptions": ["oracle = vf/refsem.py; the static part is a direct AST walk, not a solver query (stated)"],
    }


MANIFEST = {
    "engine": "B",
    "level": "translation_validation",
    "technique": "CrossHair/z3 symbolic execution of nested temporary-introducing constructs vs reference interpreter; plus static AST name scan",
    "text": "Temporaries never clash is decided as behaviour: constructs that make the compiler introduce temporaries are nested three deep around live user variables "
            "(including near-miss names like hy_anon_1), every value symbolic, and compared with the reference interpreter; a shared temporary or clobbered user name "
            "changes an observable for some input, which the solver finds. The reserved-prefix clause is a direct scan of every compiled skeleton AST.",
    "note": "Bounded by the nesting family; the scan is not a solver result. Trusted: CPython, CrossHair, z3, vf/refsem.py.",
}
