"""C02: and/or short-circuit and operand value, every arity / operand-kind mix,
all truthiness assignments symbolic."""
import itertools

from vf import skel
from vf.xh import Ob


def operand(kind, i, site):
    """-> (skeleton, sites used)"""
    v = "v%d" % i
    if kind == "pv":
        return v, 0
    if kind == "pe":
        return ("E", site, v), 1
    if kind == "sx":
        return ("do", ("setv", "q%d" % i, ("E", site, v)), "q%d" % i), 1
    if kind == "st":
        return ("try", ("E", site, v), ("finally", ("E", site + 1))), 2
    if kind == "sw":
        return ("with", ("[", ("CM", site)), ("E", site + 2, v)), 3
    if kind == "sn":  # statement operand with no value of its own (evaluates to None)
        return ("setv", "q%d" % i, ("E", site, v)), 1
    if kind == "sl":
        return ("for", ("[", "i%d" % i, ("[", 1)), ("E", site, v)), 1
    if kind == "na":  # nested and
        return ("and", ("E", site, v), ("do", ("setv", "r%d" % i, ("E", site + 1, "v%d" % (i + 10))), "r%d" % i)), 2
    if kind == "no":
        return ("or", ("do", ("setv", "r%d" % i, ("E", site, v)), "r%d" % i), ("E", site + 1, "v%d" % (i + 10))), 2
    raise ValueError(kind)


def build(op, kinds):
    site = 0
    args = []
    for i, kd in enumerate(kinds):
        sk, n = operand(kd, i, site)
        site += n
        args.append(sk)
    return (op,) + tuple(args)


def patterns(tier):
    base = ["pv", "pe", "sx", "st"]
    out = []
    maxfull = 4 if tier == "quick" else 5
    for n in range(0, maxfull + 1):
        for ks in itertools.product(base, repeat=n):
            out.append(ks)
    # higher arities: at most two statement operands, in every position
    for n in range(maxfull + 1, 9):
        for pos in itertools.combinations(range(n), 2):
            for s1, s2 in (("sx", "st"), ("st", "sx"), ("sx", "sx")) if tier == "thorough" else (("sx", "st"),):
                for plain in ("pv", "pe"):
                    ks = [plain] * n
                    ks[pos[0]] = s1
                    ks[pos[1]] = s2
                    out.append(tuple(ks))
        for pos in range(n):
            ks = ["pe"] * n
            ks[pos] = "sx"
            out.append(tuple(ks))
        out.append(tuple(["pv"] * n))
        out.append(tuple(["pe"] * n))
    # nested and/or and with-operands
    ext = ["pe", "sx", "na", "no", "sw", "sn", "sl"]
    for n in range(1, 4 if tier == "quick" else 5):
        for ks in itertools.product(ext, repeat=n):
            if any(k in ("na", "no", "sw", "sn", "sl") for k in ks):
                out.append(ks)
    # a valueless statement operand at every position of longer forms
    for n in (4, 5, 6):
        for pos in range(n):
            for kd in ("sn", "sl"):
                for plain in ("pv", "pe"):
                    ks = [plain] * n
                    ks[pos] = kd
                    out.append(tuple(ks))
    return out


def spec(tier, seed):
    obs = []
    n = 0
    for op in ("and", "or"):
        for ks in patterns(tier):
            sk = build(op, ks)
            name = "h%d" % n
            n += 1
            src, text = skel.harness_src(name, sk, sup=False)
            obs.append(Ob(name, src, sample=text, group="%s/%d" % (op, len(ks)), weight=len(ks)))
    # function-level placement (return position) for a subset
    for op in ("and", "or"):
        for ks in patterns("quick")[:200:3]:
            sk = ("call", ("fn", ("[",), build(op, ks)))
            name = "h%d" % n
            n += 1
            src, text = skel.harness_src(name, sk, sup=False)
            obs.append(Ob(name, src, sample=text, group="%s-in-fn/%d" % (op, len(ks)), weight=len(ks)))
    # assignment placement: (setv r (and ...)) exercises Result.rename on the and/or result
    for op in ("and", "or"):
        for ks in patterns("quick")[1:340:(2 if tier == "quick" else 1)]:
            sk = ("do", ("setv", "r", build(op, ks)), "r")
            name = "h%d" % n
            n += 1
            src, text = skel.harness_src(name, sk, sup=False)
            obs.append(Ob(name, src, sample=text, group="%s-in-setv/%d" % (op, len(ks)), weight=len(ks)))
    # vacuity twins
    for op in ("and", "or"):
        sk = build(op, ("pe", "sx", "st"))
        name = "twin_%s" % op
        src, text = skel.harness_src(name, sk, twin=True)
        obs.append(Ob(name, src, sample=text, twin=True, group="twin"))
    return {
        "preamble": skel.PREAMBLE,
        "obligations": obs,
        "level": "translation_validation",
        "timeout": 60.0,
        "path_timeout": 20.0,
        "batch": 24,
        "grade": "S",
        "functions_encoded": [
            "hy.core.result_macros.compile_logical_or_and_and_operator",
            "hy.compiler.HyASTCompiler.compile / Result (statement lifting, temporaries)",
            "hy.reader (concrete, at harness-generation time)",
        ],
        "bounds": "valueless statement operands (setv, for) at every position; operand count 0..%d for all 4-kind patterns {plain name, effectful call, setv-statement operand, "
                  "try/finally-statement operand}; arities up to 8 with <=2 statement operands at every position pair; nested "
                  "and/or and with-operands up to arity %d; module level, inside (fn []) and as the value of (setv r ...); truthiness of every operand "
                  "value is a solver variable" % ((4, 3) if tier == "quick" else (6, 4)),
        "outside": "arities > 8; more than two statement operands at arity 7-8 (quick: 5-8); operand kinds not listed",
        "stubs": ["crosshair.util.getsourcelines wrapper for .hy-defined callees"],
        "assumptions": [
            "oracle = vf/refsem.py (first falsy / first truthy / last operand; (and)=True, (or)=None), written from docs",
            "value objects V(tag,t): truthiness t symbolic, identity compared by tag",
            "skeleton shapes are enumerated, not solver variables",
        ],
    }


MANIFEST = {
    "engine": "B",
    "level": "translation_validation",
    "technique": "CrossHair/z3 symbolic execution of real-compiler output vs reference semantics, per bounded-exhaustive skeleton",
    "text": "For each generated (and ...)/(or ...) skeleton the code object produced by the real reader+compiler is run on solver-chosen "
            "truthiness of every operand and must agree (value identity, effect log, bindings) with a reference interpreter written from the docs; "
            "CrossHair reports 'Confirmed over all paths' per skeleton or a counterexample that is replayed natively.",
    "note": "Bounded: operand shapes and arities enumerated (see evidence bounds); truthiness symbolic. Trusted: CPython, CrossHair path exhaustiveness, z3, vf/refsem.py oracle.",
}
