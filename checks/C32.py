"""C32: hy.mangle always yields a canonical Python identifier (Engine A, grade R: every character is realised)."""
import unicodedata

from vf.xh import Ob

PREAMBLE = '''\
import sys
from checks.C32 import mangle_ok, unmangle_ok, ALPH, ASCII
'''

# structure characters + class representatives: XID_Start letter, XID_Continue-only mark, NFKC-changing letter,
# normalises-to-underscore, named with a hyphen, unnamed (private use), astral, the delimiter look-alike
ALPH = "azXUHx09_-!?* é́ｆ＿‐🦑Ｘª"
ASCII = "".join(chr(i) for i in range(32, 127) if chr(i) != ".")

U_LIKE = "_︳︴﹍﹎﹏＿"


# longer hand-picked names: combining sequences and compatibility characters together with characters that need escaping,
# look-alikes of the delimiter, names that begin with the letters of the hyx_ prefix, dotted names with underscore-led parts
CANDS = ["cafe\u0301?", "a\u0301?", "a\u0301\u0323*", "\u1112\u1161\u11ab!", "o\ufb03ce?", "_\ufe4f\u2042\ufe4f", "\u216a!", "_\u2168-\u216a*", "\u216b?", "\u2169!", "\u2168",
         "has-key?", "x!", "y?", "xs?", "_x?", "__hash!__", "hyx", "hy-x", "x-hyx_", "h?", "hy?", "xyh_!", "-", "--", "-a", "_-a", "a-", "1a", "\u00e9!", "\u00b5?", "\u00aab!", "\ufb01le",
         "\uff58\uff59-z", "if", "None", "def!", "a-b-c", "a_b-c", "A?B", "+\u0308", "a+\u0301", "x\u0301!", "\U0001f991\u0301"]
DOTTED_CANDS = ["_1.a", "__2x.real", "_0._0", "_\u00b7.x", "a._b", "_a._b", "a.b-c", "a-b.c!", "_a!.b-c", "a.b.c", "x?.y!", "_.a", "a.__b__", "caf\u00e9.\ufb01", "a.hyx"]


def cand_ok(i, which, why=None):
    """which: 0 = mangle clauses (C32), 1 = unmangle round trip (C33), 2 = dotted names part by part (C32)"""
    import hy
    from vf import skel

    if why is None and skel.EXPLAIN[0]:
        del skel.LAST_WHY[:]
        why = skel.LAST_WHY
    if which == 2:
        s = DOTTED_CANDS[i]
        want = ".".join(hy.mangle(p) for p in s.split("."))
        got = hy.mangle(s)
        if got != want and why is not None:
            why.append("mangle(%r) = %r, part by part %r" % (s, got, want))
        return got == want
    if which == 3:
        return unmangle_ok(DOTTED_CANDS[i], why)
    s = CANDS[i]
    return mangle_ok(s, why) if which == 0 else unmangle_ok(s, why)


def cand_obs(which, name, what, alone=()):
    """One obligation over all candidates; names listed in `alone` (those with a recorded finding) get an obligation each,
    so that a known finding never hides another candidate."""
    from vf.xh import Ob

    pool = DOTTED_CANDS if which >= 2 else CANDS
    idx = [k for k in range(len(pool)) if pool[k] not in alone]
    L = ["from checks.C32 import cand_ok", "def %s(i: int) -> bool:" % name, '    """', "    pre: 0 <= i < %d" % len(idx), "    post: _", '    """',
         "    for j, k in enumerate(%r):" % (idx,), "        if i == j:", "            return cand_ok(k, %d)" % which, "    return True"]
    out = [Ob(name, "\n".join(L), sample="%s for the hand-picked names %r" % (what, [pool[k] for k in idx]), group="candidates")]
    for n, a in enumerate(alone):
        L = ["from checks.C32 import cand_ok", "def %s_%d(i: int) -> bool:" % (name, n), '    """', "    post: _", '    """', "    return cand_ok(%d, %d)" % (pool.index(a), which)]
        out.append(Ob("%s_%d" % (name, n), "\n".join(L), sample="%s for the name %r" % (what, a), group="candidates"))
    return out


def leading_us(s):
    n = 0
    for c in s:
        if unicodedata.normalize("NFKC", c) == "_":
            n += 1
        else:
            break
    return n


def mangle_ok(s, why=None):
    import hy
    from vf import skel

    if why is None and skel.EXPLAIN[0]:
        del skel.LAST_WHY[:]
        why = skel.LAST_WHY

    def bad(msg):
        if why is not None:
            why.append("%r: %s" % (s, msg))
        return False

    try:
        m = hy.mangle(s)
    except Exception as e:
        return bad("raised %s" % type(e).__name__)
    if not isinstance(m, str) or not m.isidentifier():
        return bad("result %r is not an identifier" % (m,))
    if unicodedata.normalize("NFKC", m) != m:
        return bad("result %r is not NFKC-normal" % (m,))
    k = 0
    for c in m:
        if c == "_":
            k += 1
        else:
            break
    if k != leading_us(s) and s.strip(U_LIKE) != "":
        return bad("leading underscores: input %d, result %r has %d" % (leading_us(s), m, k))
    if s.isidentifier() and unicodedata.normalize("NFKC", s) == s:
        import keyword

        if m != s and not keyword.iskeyword(s):
            return bad("already a normal identifier but changed to %r" % (m,))
    if hy.mangle(m) != m:
        return bad("not idempotent: mangle(%r) = %r" % (m, hy.mangle(m)))
    return True


def dotted_ok(a, b, why=None):
    import hy

    if not a or not b:
        return True
    return hy.mangle(a + "." + b) == hy.mangle(a) + "." + hy.mangle(b)


def unmangle_ok(s, why=None):
    """C33: under the hyx_ precondition, unmangle(mangle(s)) does not raise and re-mangles to mangle(s)."""
    import hy
    from vf import skel

    if why is None and skel.EXPLAIN[0]:
        del skel.LAST_WHY[:]
        why = skel.LAST_WHY
    core = s.lstrip(U_LIKE)
    if core.startswith("hyx_") or not s:
        return True
    m = hy.mangle(s)
    try:
        u = hy.unmangle(m)
    except Exception as e:
        if why is not None:
            why.append("unmangle(mangle(%r) = %r) raised %s" % (s, m, type(e).__name__))
        return False
    if not u:
        if why is not None:
            why.append("unmangle(%r) is empty" % (m,))
        return False
    m2 = hy.mangle(u)
    if m2 != m:
        if why is not None:
            why.append("mangle(%r)=%r, unmangle -> %r, mangle again -> %r" % (s, m, u, m2))
        return False
    return True


def string_obs(fname, alph_name, alph, maxlen, group, prefix="h"):
    """One obligation per first character; the rest of the string is symbolic over the alphabet."""
    obs = []
    for i, ch in enumerate(alph):
        fn = "%s%d" % (prefix, i)
        L = ["def %s(rest: str) -> bool:" % fn, '    """', "    pre: len(rest) <= %d and all(c in %s for c in rest)" % (maxlen - 1, alph_name), "    post: _", '    """',
             "    return %s(%r + rest)" % (fname, ch)]
        obs.append(Ob(fn, "\n".join(L), sample="%s(%r + rest), rest over %s, len(rest) <= %d" % (fname, ch, alph_name, maxlen - 1), group=group))
    return obs


def spec(tier, seed):
    maxlen = 2 if tier == "quick" else 3
    obs = string_obs("mangle_ok", "ALPH", ALPH, maxlen, "alphabet")
    if tier == "thorough":
        obs += string_obs("mangle_ok", "ASCII", ASCII, 2, "ascii", prefix="a")
    # dotted names: each part mangled separately
    L = ["from checks.C32 import dotted_ok", "def hdot(a: str, b: str) -> bool:", '    """', "    pre: 1 <= len(a) <= 1 and 1 <= len(b) <= 1 and all(c in ALPH for c in a + b)", "    post: _", '    """',
         "    return dotted_ok(a, b)"]
    obs.append(Ob("hdot", "\n".join(L), sample="mangle(a + '.' + b) == mangle(a) + '.' + mangle(b), a of length <= 2, b of length 1 over ALPH", group="dotted"))
    obs += cand_obs(0, "hcand", "mangle clauses")
    obs += cand_obs(2, "hdotcand", "dotted names mangled part by part")
    tw = "\n".join(["def twin0(rest: str) -> bool:", '    """', "    pre: len(rest) <= 1 and all(c in ALPH for c in rest)", "    post: _", '    """', "    mangle_ok('a' + rest)", "    return False"])
    obs.append(Ob("twin0", tw, twin=True, group="twin"))
    return {
        "preamble": PREAMBLE,
        "obligations": obs,
        "level": "model_checking",
        "timeout": 300.0,
        "path_timeout": 30.0,
        "batch": 1,
        "grade": "R (str.isidentifier, unicodedata.* realise every character: each path is one concrete string; the engine certifies the box was exhausted)",
        "functions_encoded": ["hy.reader.mangling.mangle"],
        "bounds": "names of length 1..%d over the %d-character alphabet %r%s; dotted names a.b with len(a) <= 2, len(b) = 1; %d + %d hand-picked longer names (combining sequences with escapes, delimiter look-alikes, hyx-prefix letters, dotted names with underscore-led parts)" % (
            maxlen, len(ALPH), ALPH, " plus all printable ASCII except '.' at length <= 2" if tier == "thorough" else "", len(CANDS), len(DOTTED_CANDS)),
        "outside": "every other Unicode code point (the property's 'every code point'): str.isidentifier / unicodedata.name / normalize are C tables that CrossHair realises and that cannot "
                   "be encoded as SMT axioms here; longer names",
        "stubs": [],
        "assumptions": ["clauses: identifier, NFKC-normal, same number of leading underscore-like characters, unchanged if already a normal non-keyword identifier, idempotent"],
    }


MANIFEST = {
    "engine": "A",
    "level": "model_checking",
    "technique": "CrossHair/z3 on the real hy.mangle with a symbolic string over a bounded alphabet, property clauses as postcondition",
    "text": "hy.mangle is executed by CrossHair on every string of the stated length over an alphabet of ASCII structure characters and Unicode class representatives; the result must be an "
            "identifier, NFKC-normal, keep the leading-underscore count, leave normal identifiers unchanged and be idempotent; dotted names mangle per part.",
    "note": "Grade R: characters are realised, so this is exhaustive only inside the alphabet x length box; 'every code point' is outside the claim.",
}
