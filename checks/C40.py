"""C40: the REPL evaluates incremental input like a script and tracks *1 *2 *3 *e (grade D/S: histories are folded selectors)."""
from vf import readerlib, strsym
from vf.xh import Ob

PREAMBLE = '''\
import sys
from vf import skel as _sk
from checks.C40 import hist_ok, lines_ok, PROGRAMS
'''

KINDS = ["value", "none", "runtime-failure", "compile-failure", "incomplete", "reader-error", "value-string", "raise-custom", "reader-error-mid", "nonlocal-top"]


def _input(kind, i):
    if kind == "value":
        return "(+ 100 %d)" % i, ("v", 100 + i)
    if kind == "value-string":
        return "(.format \"s{}\" %d)" % i, ("v", "s%d" % i)
    if kind == "none":
        return "(setv q%d %d)" % (i, i), ("v", None)
    if kind == "runtime-failure":
        return "(/ %d 0)" % (i + 1), ("x", "ZeroDivisionError")
    if kind == "raise-custom":
        return "(raise (KeyError %d))" % i, ("x", "KeyError")
    if kind == "compile-failure":
        return "(if %d)" % i, ("x", "HySyntaxError")
    if kind == "reader-error":
        return "(%d))" % i, ("x", "LexException")
    if kind == "nonlocal-top":
        # rejected when the module scope is closed; the REPL keeps one compiler (and one module scope) for the whole session
        return "(nonlocal zz%d)" % i, ("x", "SyntaxError")
    if kind == "reader-error-mid":
        # the error is raised in the middle of the text, while the reader has already looked ahead past the bad token
        return "(setv bad%d [1 a..b])" % i, ("x", "LexException")
    return "(+ 1 (* 2", ("incomplete",)


def _hist_ok(kinds):
    import contextlib
    import io

    import hy
    import hy.repl

    r = hy.repl.REPL(locals={})
    r.locals.pop(hy.mangle("*e"), None)  # REPL objects in one process share a namespace; start from a clean slate
    results = []
    last_exc = None
    for i, k in enumerate(kinds):
        text, exp = _input(KINDS[k], i)
        buf = io.StringIO()
        with contextlib.redirect_stdout(buf), contextlib.redirect_stderr(buf):
            more = r.runsource(text)
        out = buf.getvalue()
        if exp[0] == "incomplete":
            if more is not True:
                return "runsource(%r) returned %r for incomplete input" % (text, more)
            continue
        if more:
            return "runsource(%r) asked for more input" % (text,)
        if exp[0] == "v":
            results.insert(0, exp[1])
            want_print = "" if exp[1] is None else hy.repr(exp[1]) + "\n"
            if out != want_print:
                return "input %r printed %r, expected %r" % (text, out, want_print)
        else:
            last_exc = exp[1]
            if exp[1] not in out:
                return "input %r: no %s traceback printed (%r)" % (text, exp[1], out[-80:])
        got = [r.locals[hy.mangle("*%d" % j)] for j in (1, 2, 3)]
        want = (results + [None, None, None])[:3]
        if got != want:
            return "after inputs %r: (*1 *2 *3) = %r, expected %r" % ([_input(KINDS[x], j)[0] for j, x in enumerate(kinds[:i + 1])], got, want)
        e = r.locals.get(hy.mangle("*e"))
        if (type(e).__name__ if e is not None else None) != last_exc:
            return "after inputs up to %r: *e is %r, expected %s" % (text, e, last_exc)
    return None


def hist_ok(k0, k1, k2, k3, n, why=None):
    from vf import skel

    if why is None and skel.EXPLAIN[0]:
        del skel.LAST_WHY[:]
        why = skel.LAST_WHY
    r = strsym.untraced(_hist_ok, [k0, k1, k2, k3][:n])
    if r is not None and why is not None:
        why.append(r)
    return r is None


PROGRAMS = [
    "(setv a 1)\n(defn f [x]\n  (+ x\n     a))\n(f 2)\n\"multi\nline\"\n[a\n (f 3)]",
    "(print \"hi\")\n(setv d {\"k\"\n  [1 2]})\n(get d \"k\")\n#[[br\nacket]]\n'(q\n  r)",
    "(defmacro m [x]\n  `(+ ~x\n      1))\n(m 4)\nf\"a{(m\n 5)}\"\n(when True\n  ; comment (\n  7)",
]


def _lines_ok(pi, cut):
    """Feed the program line by line (as code.InteractiveConsole.push does); after `cut` lines compare with a scanner and with script evaluation."""
    import contextlib
    import io

    import hy
    import hy.repl

    text = PROGRAMS[pi]
    lines = text.split("\n")
    r = hy.repl.REPL(locals={})
    printed = ""
    consumed = ""
    buffer_start = 0
    pos = 0
    for i, line in enumerate(lines[:cut]):
        buf = io.StringIO()
        with contextlib.redirect_stdout(buf), contextlib.redirect_stderr(buf):
            more = r.push(line)
        printed += buf.getvalue()
        pos += len(line) + 1
        acc = text[buffer_start:pos - 1]
        cls = readerlib.cut_class(acc + "\n", len(acc) + 1)
        if cls == "inside" and not more:
            return "after line %d (%r) the accumulated text %r is incomplete but the REPL did not ask for more" % (i, line, acc)
        if cls == "between" and more:
            return "after line %d (%r) the accumulated text %r is complete but the REPL asked for more" % (i, line, acc)
        if not more:
            buffer_start = pos
    # script evaluation of the same complete forms
    done = text[:buffer_start]
    g = {}
    want = ""
    buf = io.StringIO()
    with contextlib.redirect_stdout(buf):
        for form in hy.read_many(done):
            v = hy.eval(form, g)
            if v is not None:
                print(hy.repr(v))
    want = buf.getvalue()
    if printed != want:
        return "REPL printed %r, evaluating the same forms in order prints %r" % (printed, want)
    return None


def lines_ok(pi, cut, why=None):
    from vf import skel

    if why is None and skel.EXPLAIN[0]:
        del skel.LAST_WHY[:]
        why = skel.LAST_WHY
    r = strsym.untraced(_lines_ok, pi, cut)
    if r is not None and why is not None:
        why.append(r)
    return r is None


def finding_key(ob, rec):
    return "%s" % (rec.get("replay_detail"),)


def spec(tier, seed):
    obs = []
    nk = len(KINDS)
    maxn = 3 if tier == "quick" else 4
    for k0 in range(nk):
        fn = "h%d" % k0
        L = ["def %s(k1: int, k2: int, k3: int, n: int) -> bool:" % fn, '    """', "    post: _", '    """',
             "    m = _sk.box(n, 1, %d)" % maxn,
             "    a = _sk.box(k1, 0, %d) if m >= 2 else 0" % (nk - 1), "    b = _sk.box(k2, 0, %d) if m >= 3 else 0" % (nk - 1), "    c = _sk.box(k3, 0, %d) if m >= 4 else 0" % (nk - 1),
             "    return hist_ok(%d, a, b, c, m)" % k0]
        obs.append(Ob(fn, "\n".join(L), sample="histories of 1..%d inputs starting with a %s input, every later input any of %r" % (maxn, KINDS[k0], KINDS), group="history"))
    for pi, p in enumerate(PROGRAMS):
        fn = "l%d" % pi
        nl = p.count("\n") + 1
        L = ["def %s(cut: int) -> bool:" % fn, '    """', "    post: _", '    """', "    return lines_ok(%d, _sk.box(cut, 0, %d))" % (pi, nl)]
        obs.append(Ob(fn, "\n".join(L), sample="program fed line by line, stopped after every number of lines 0..%d: %r" % (nl, p), group="lines"))
    tw = "\n".join(["def twin0(k1: int) -> bool:", '    """', "    post: _", '    """', "    hist_ok(0, _sk.box(k1, 0, 3), 0, 0, 2)", "    return False"])
    obs.append(Ob("twin0", tw, twin=True, group="twin"))
    return {
        "preamble": PREAMBLE,
        "obligations": obs,
        "level": "model_checking",
        "timeout": 3000.0,
        "path_timeout": 120.0,
        "batch": 1,
        "grade": "D (histories and line counts are folded selectors: one path per history; the REPL runs untraced because nothing symbolic enters it)",
        "functions_encoded": ["hy.repl.REPL.runsource / runcode / push (code.InteractiveConsole) / showtraceback / showsyntaxerror / _error_wrap", "hy.repl.HyCommandCompiler (incomplete-input detection)"],
        "bounds": "every history of 1..%d inputs over %d input kinds %r; %d multi-line programs fed line by line, stopped after every line" % (maxn, nk, KINDS, len(PROGRAMS)),
        "outside": "longer histories; output functions other than hy.repr; --spy; interactive readline behaviour; input kinds not listed",
        "stubs": ["REPL calls executed under crosshair.tracers.NoTracing; stdout/stderr captured"],
        "assumptions": ["reference model: a stack of results of the inputs that completed without error (None-valued inputs push None); *e = the latest exception; continuation = the independent "
                        "scanner of vf/readerlib.py says the accumulated text ends inside an unclosed construct"],
        "traces_validated": 0,
    }


MANIFEST = {
    "engine": "A",
    "level": "model_checking",
    "technique": "CrossHair/z3 enumerating input histories and line cuts (folded selectors): real REPL vs a reference result-stack model and script evaluation",
    "text": "Every history of succeeding, None-valued, failing (run time, compile time, reader) and incomplete inputs up to the bound is fed to a real REPL object; *1 *2 *3 must equal the "
            "reference stack, *e the latest exception, printed output the hy.repr of non-None results, and the continuation flag the scanner's verdict. Programs fed line by line must print what "
            "evaluating the same forms in order prints.",
    "note": "Grade D. Trusted: the reference model, the scanner.",
}
