"""C19: truncated input is reported as premature end of input (grade D for cut points)."""
from vf import readerlib, strsym
from vf.xh import Ob

PREAMBLE = '''\
import sys
from vf import skel as _sk
from checks.C19 import cut_ok, cut_ok_reused, PROGRAMS
'''

PROGRAMS = [
    "(defn f [a #* b] (+ a 1)) (f 2)",
    "(setv x \"s\\\" q\" y b\"q\") [x y]",
    "`(a ~b ~@c) '(q) 'r",
    "#[[text ] x]] 'q #[ab[ ]a] ]ab]",
    "f\"a{x !r :>{w}}b{(+ 1 2)}\" z",
    "{\"k\" [1 2.5 3j] :kw #{1 2}} #(1 (2))",
    "(x.y.z #** d) ; comment (\n#_ (skipped 5) tail",
    "#^ int x #^ (get d 1) y",
    "(. a b [c]) (-> a (b))",
    "#[f[{x} and {[y]}]f] end",
    "'a `b ~c ~@d #* e #** f",
    "(a\n  (b\n    \"multi\nline\")\n  [c])\n(d)",
    "#_ #_ a b c",
    "(when x #_ y z) ''a",
    "(print f\"a{{b}}c{x}}}\" #(1) #{2} #* r #** k)",
    "[f\"{{}}\" f\"}}{{{y =}\" #[f[{{q}} {z}]f]]",
    "(setv x #(1 #{2}) y '#(3)) #(4)",
    "(f :kw 1 #^ int a \\x) [~@b ~ @c]",
]

# thorough tier: every ordered pair of these snippets, wrapped alternately in ( ) and [ ] with a space or a newline between
SNIPS = ["a.b", "\"s\\\"q\"", "#[x[ ]] ]x]", "f\"{a !r :>{w}}b{{c}}\"", "'q", "`(~a ~@b)", "#* r", "#** k", "#^ int x", "#_ d e", "{1 [2 #{3}]}", "#(1 2)", "; c\n z", "b\"\\x00\"", ":k"]
N_HAND = len(PROGRAMS)
for _i, _a in enumerate(SNIPS):
    for _j, _b in enumerate(SNIPS):
        _o, _c = ("(", ")") if (_i + _j) % 2 else ("[", "]")
        PROGRAMS.append(_o + "f " + _a + (" " if (_i * 3 + _j) % 3 else "\n  ") + _b + _c + " end")

# inputs after which the same reader object is used again (the REPL keeps one reader for the whole session): reads that
# were abandoned half-way, with look-ahead pending, and complete ones
EARLIER = ["(setv x #", "(foo a.)", "[1 2 \"abc", "(a b", "f\"{x", "(ok 1)", "#[q[ ", "'", "(x #* "]



def _cut_ok(text, n):
    cls = readerlib.cut_class(text, n)
    if cls is None:
        return None
    r = readerlib.read_all(text[:n])
    if cls == "inside":
        if r != ("lex", "PrematureEndOfInput"):
            return "prefix %r ends inside an unclosed construct but reading gives %r" % (text[:n], r[:2] if r[0] != "ok" else r)
    else:
        if r[0] != "ok":
            return "prefix %r ends between top-level forms but reading gives %r" % (text[:n], r)
    return None


def _cut_ok_reused(ei, pi, n):
    """The classification of a prefix must not depend on what the same reader object read before."""
    import hy
    from hy.reader.hy_reader import HyReader

    text = PROGRAMS[pi]
    cls = readerlib.cut_class(text, n)
    if cls is None:
        return None
    rd = HyReader()
    readerlib.read_all(EARLIER[ei], reader=rd)
    r = readerlib.read_all(text[:n], reader=rd)
    if cls == "inside":
        if r != ("lex", "PrematureEndOfInput"):
            return "after reading %r with the same reader, prefix %r (inside an unclosed construct) gives %r" % (EARLIER[ei], text[:n], r[:2] if r[0] != "ok" else r)
    elif r[0] != "ok":
        return "after reading %r with the same reader, prefix %r (between top-level forms) gives %r" % (EARLIER[ei], text[:n], r)
    else:
        fresh = readerlib.read_all(text[:n])
        if fresh[0] == "ok" and not readerlib.meq(fresh[1], r[1]):
            return "after reading %r with the same reader, prefix %r reads as %r instead of %r" % (EARLIER[ei], text[:n], r[1], fresh[1])
    return None


def cut_ok_reused(ei, pi, n, why=None):
    from vf import skel

    if why is None and skel.EXPLAIN[0]:
        del skel.LAST_WHY[:]
        why = skel.LAST_WHY
    r = strsym.untraced(_cut_ok_reused, ei, pi, n)
    if r is not None and why is not None:
        why.append(r)
    return r is None


def cut_ok(pi, n, why=None):
    from vf import skel

    if why is None and skel.EXPLAIN[0]:
        del skel.LAST_WHY[:]
        why = skel.LAST_WHY
    r = strsym.untraced(_cut_ok, PROGRAMS[pi], n)
    if r is not None and why is not None:
        why.append(r)
    return r is None


def finding_key(ob, rec):
    return "%s" % (rec.get("replay_detail"),)


def spec(tier, seed):
    obs = []
    for pi, p in enumerate(PROGRAMS if tier == "thorough" else PROGRAMS[:N_HAND]):
        fn = "h%d" % pi
        L = ["def %s(n: int) -> bool:" % fn, '    """', "    post: _", '    """', "    return cut_ok(%d, _sk.box(n, 0, %d))" % (pi, len(p))]
        obs.append(Ob(fn, "\n".join(L), sample="every cut point 0..%d of %r" % (len(p), p), group="cut"))
    reuse = list(range(N_HAND)) if tier == "thorough" else [0, 4, 6, 14]
    for pi in reuse:
        p = PROGRAMS[pi]
        fn = "u%d" % pi
        L = ["def %s(e: int, n: int) -> bool:" % fn, '    """', "    post: _", '    """',
             "    return cut_ok_reused(_sk.box(e, 0, %d), %d, _sk.box(n, 0, %d))" % (len(EARLIER) - 1, pi, len(p))]
        obs.append(Ob(fn, "\n".join(L), sample="one reader object: first one of %r, then every cut point 0..%d of %r" % (EARLIER, len(p), p), group="reused-reader"))
    tw = "\n".join(["def twin0(n: int) -> bool:", '    """', "    post: _", '    """', "    cut_ok(0, _sk.box(n, 0, 5))", "    return False"])
    obs.append(Ob("twin0", tw, twin=True, group="twin"))

    def extra(tier_, seed_, workdir):
        # validate the independent tokenizer on the untruncated programs: each must tokenize and read without error
        recs = []
        for p in (PROGRAMS if tier_ == "thorough" else PROGRAMS[:N_HAND]):
            ok = readerlib.cut_class(p, len(p)) == "between" and readerlib.read_all(p)[0] == "ok"
            recs.append({"name": "wellformed:" + p[:30], "verdict": "CONFIRMED" if ok else "POST_FAIL", "reproduces": None if ok else True, "sample": p, "cex": {"args": [], "kwargs": {}},
                         "replay_detail": "program does not read / scan as complete: %r" % (readerlib.read_all(p),), "paths": 1, "queries": 0, "solver_s": 0.0, "group": "wellformed", "twin": False})
        return recs

    return {
        "preamble": PREAMBLE,
        "obligations": obs,
        "extra": extra,
        "level": "model_checking",
        "timeout": 600.0,
        "path_timeout": 60.0,
        "batch": 2,
        "grade": "D (the cut index is a folded selector: one path per cut point; reader call untraced)",
        "functions_encoded": ["hy.read_many / HyReader (premature-end detection in read_chars_until, fill_pos, prefix handlers, bracket strings, f-string fields)", "hy.reader.reader.Reader._eof_tracker"],
        "bounds": "every cut point of %d well-formed programs (<= %d characters) covering parens/brackets/braces, #( and #{, strings with escaped quotes, bytes, bracket strings with "
                  "delimiters, f-strings with nested fields, comments, every prefix (' ` ~ ~@ #* #** #^ #_), multi-line forms, doubled braces in f-strings; "
                  "plus, for %s programs, every cut point read with a reader object that first read each of %d earlier inputs (abandoned half-way or complete)" % (
                      len(PROGRAMS) if tier == "thorough" else N_HAND, max(len(p) for p in PROGRAMS), "all hand-written" if tier == "thorough" else "4", len(EARLIER))
                  + ("; thorough tier adds every ordered pair of %d snippets in a wrapper (%d programs)" % (len(SNIPS), len(SNIPS) ** 2) if tier == "thorough" else ""),
        "outside": "other programs; cut points that split an atom or a multi-character prefix token at top level (outside every bracket and pending prefix), or that leave a dotted identifier ending in a dot, are not judged; the REPL's continuation prompt is checked in C40",
        "stubs": ["reader call executed under crosshair.tracers.NoTracing"],
        "assumptions": ["oracle: independent regex tokenizer + frame/pending-prefix state machine in vf/readerlib.py:cut_class"],
    }


MANIFEST = {
    "engine": "A",
    "level": "model_checking",
    "technique": "CrossHair/z3 enumerating every cut point (folded selector) of well-formed programs: real reader vs an independent nesting scanner",
    "text": "For each program and each cut index the prefix is classified by an independent scanner as inside an unclosed construct or between top-level forms; the real reader must raise "
            "PrematureEndOfInput (and nothing else) in the first case and read without error in the second.",
    "note": "Grade D. Trusted: the independent scanner (validated on the complete programs).",
}
