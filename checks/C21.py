"""C21: reader source positions delimit each form's text (grade R/D: layout choices are folded selectors)."""
from vf import readerlib, strsym
from vf.xh import Ob

PREAMBLE = '''\
import sys
from vf import skel as _sk
from checks.C21 import pos_ok, PROGRAMS
'''

GAPS = [" ", "\n", "\n  ", "  ", "\n\n", " ; c\n ", "\t", "\r\n", " \r\n  "]

# programs as lists of tokens; a gap goes between consecutive tokens marked with None
PROGRAMS = [
    ["(", "defn", None, "f", None, "[", "a", None, "#*", None, "b", "]", None, "(", "+", None, "a", None, "1", ")", ")"],
    ["(", "setv", None, "x", None, "\"s\\n t\"", None, "y", None, "b\"q\"", ")", None, "[", "x", None, "y", "]"],
    ["`", "(", "a", None, "~", "b", None, "~@", "c", ")", None, "'", "q"],
    ["#[[te\nxt]]", None, "f\"a{x !r}b\"", None, "{", "\"k\"", None, "[", "1", None, "2.5", "]", "}"],
    ["(", "x.y.z", None, "#**", None, "d", None, ":k", None, "3", ")", None, "#(", "1", None, "#{", "2", "}", ")"],
    ["#^", None, "int", None, "x", None, "(", ".", None, "a", None, "b", None, "[", "c", "]", ")"],
    ["\"multi\nline\nstring\"", None, "(", "f", None, "\"x\ny\"", None, "z", ")", None, "end"],
    ["(", "a", None, "(", "b", None, "(", "c", ")", ")", None, "[", "]", None, "(", ")", ")"],
    # the same sugar several times (each occurrence builds its own head symbol), carriage returns inside literals
    ["'", "a", None, "(", "f", None, "'", "b", None, "'", "(", "c", ")", ")", None, "`", "d", None, "`", "(", "e", None, "~", "g", None, "~", "h", ")", None, "#*", None, "i", None, "#*", None, "j"],
    ["\"x\ry\"", None, "(", "p", None, "#[[a\r\nb]]", None, "q", ")", None, "\"u\r\nv\"", None, "'", "w", None, "end"],
]


def region(text, m):
    lines = text.split("\n")
    sl, sc, el, ec = m.start_line, m.start_column, m.end_line, m.end_column
    if sl == el:
        return lines[sl - 1][sc - 1:ec]
    out = [lines[sl - 1][sc - 1:]] + lines[sl:el - 1] + [lines[el - 1][:ec]]
    return "\n".join(out)


def _walk_f(text, m, errs):
    """Nested FString / FComponent reached from a parent f-string: only the structural clauses (the region of a field such
    as {x !r} is not itself form syntax)."""
    import hy

    prev = None
    for ch in m:
        if not all(getattr(ch, a, None) is not None for a in ("start_line", "start_column", "end_line", "end_column")):
            errs.append("f-string piece %r has no position" % (ch,))
            continue
        cs, ce = (ch.start_line, ch.start_column), (ch.end_line, ch.end_column)
        ps, pe = (m.start_line, m.start_column), (m.end_line, m.end_column)
        if not (ps <= cs and ce <= pe):
            errs.append("f-string piece %r region %r-%r outside parent region %r-%r" % (ch, cs, ce, ps, pe))
        if prev is not None and cs <= prev:
            errs.append("pieces of an f-string field not in source order (%r starts at %r, the one before at %r)" % (ch, cs, prev))
        prev = cs
        if isinstance(ch, (hy.models.FString, hy.models.FComponent)):
            _walk_f(text, ch, errs)
        elif not isinstance(ch, hy.models.String) or (isinstance(m, hy.models.FComponent) and ch is m[0]):
            walk(text, ch, m, None, errs)


def walk(text, m, parent, acc, errs):
    import hy

    if not all(hasattr(m, a) and getattr(m, a) is not None for a in ("start_line", "start_column", "end_line", "end_column")):
        errs.append("model %r has no position" % (m,))
        return
    start = (m.start_line, m.start_column)
    end = (m.end_line, m.end_column)
    if start > end:
        errs.append("model %r: start %r after end %r" % (m, start, end))
    if parent is not None:
        ps, pe = (parent.start_line, parent.start_column), (parent.end_line, parent.end_column)
        if not (ps <= start and end <= pe):
            errs.append("child %r region %r-%r outside parent region %r-%r" % (m, start, end, ps, pe))
    reg = region(text, m)
    r = readerlib.read_all(reg)
    if r[0] != "ok" or len(r[1]) != 1 or not readerlib.meq(r[1][0], m):
        errs.append("region %r of %r re-reads as %r" % (reg, m, r))
    if isinstance(m, (hy.models.FString, hy.models.FComponent)):
        # pieces of an f-string: literal text has no form syntax of its own (no re-reading), but every child still has to lie
        # within its parent and the children have to start in source order; field expressions are ordinary forms
        prev = None
        for ch in m:
            if not all(getattr(ch, a, None) is not None for a in ("start_line", "start_column", "end_line", "end_column")):
                errs.append("f-string piece %r has no position" % (ch,))
                continue
            cs, ce = (ch.start_line, ch.start_column), (ch.end_line, ch.end_column)
            ps, pe = (m.start_line, m.start_column), (m.end_line, m.end_column)
            if not (ps <= cs and ce <= pe):
                errs.append("f-string piece %r region %r-%r outside parent region %r-%r" % (ch, cs, ce, ps, pe))
            if prev is not None and cs <= prev:
                errs.append("pieces of %r not in source order (%r starts at %r, the one before at %r)" % (reg, ch, cs, prev))
            prev = cs
            if isinstance(ch, (hy.models.FString, hy.models.FComponent)):
                _walk_f(text, ch, errs)
            elif not isinstance(ch, hy.models.String) or (isinstance(m, hy.models.FComponent) and ch is m[0]):
                walk(text, ch, m, acc, errs)
        return
    if isinstance(m, hy.models.Sequence) and not isinstance(m, (hy.models.FString, hy.models.FComponent)):
        prev = None
        sugar = isinstance(m, hy.models.Expression) and not reg.startswith("(")
        for ci, ch in enumerate(m):
            if sugar and (ci == 0 or "." in reg.split()[0] and not reg.startswith(("'", "`", "~", "#"))):
                # the head symbol that sugar introduces (quote, unpack-iterable, annotate, `.`) has no text of its own;
                # the parts of a dotted identifier are not separate forms in the source: no re-reading, but their
                # region must still lie within the parent's
                if all(getattr(ch, a, None) is not None for a in ("start_line", "start_column", "end_line", "end_column")):
                    cs, ce = (ch.start_line, ch.start_column), (ch.end_line, ch.end_column)
                    ps, pe = (m.start_line, m.start_column), (m.end_line, m.end_column)
                    if not (ps <= cs and ce <= pe):
                        errs.append("child %r (introduced by sugar) region %r-%r outside parent region %r-%r" % (ch, cs, ce, ps, pe))
                else:
                    errs.append("model %r (introduced by sugar) has no position" % (ch,))
                continue
            if prev is not None and not sugar and hasattr(ch, "start_line") and hasattr(prev, "end_line"):
                if (ch.start_line, ch.start_column) <= (prev.start_line, prev.start_column):
                    errs.append("children of %r not in source order" % (m,))
            walk(text, ch, m, acc, errs)
            prev = ch


def _pos_ok(pi, gaps):
    toks = PROGRAMS[pi]
    text = ""
    gi = 0
    for t in toks:
        if t is None:
            text += GAPS[gaps[gi % len(gaps)]]
            gi += 1
        else:
            text += t
    r = readerlib.read_all(text)
    if r[0] != "ok":
        return "program %r does not read: %r" % (text, r)
    errs = []
    for m in r[1]:
        walk(text, m, None, None, errs)
    if errs:
        return "%r: %s" % (text, errs[0])
    return None


def pos_ok(pi, g0, g1, g2, g3, why=None):
    from vf import skel

    if why is None and skel.EXPLAIN[0]:
        del skel.LAST_WHY[:]
        why = skel.LAST_WHY
    r = strsym.untraced(_pos_ok, pi, [g0, g1, g2, g3])
    if r is not None and why is not None:
        why.append(r)
    return r is None


def finding_key(ob, rec):
    return "%s" % (rec.get("replay_detail"),)


def spec(tier, seed):
    obs = []
    ng = len(GAPS)
    for pi, p in enumerate(PROGRAMS):
        fn = "h%d" % pi
        L = ["def %s(g0: int, g1: int, g2: int, g3: int) -> bool:" % fn, '    """', "    post: _", '    """',
             "    return pos_ok(%d, _sk.box(g0, 0, %d), _sk.box(g1, 0, %d), _sk.box(g2, 0, %d), _sk.box(g3, 0, %d))" % (pi, ng - 1, ng - 1, ng - 1, (ng - 1) if tier == "thorough" else 2)]
        obs.append(Ob(fn, "\n".join(L), sample="tokens %r with gaps chosen (period 4) from %r" % ([t for t in p if t], GAPS), group="layout"))
    tw = "\n".join(["def twin0(g0: int) -> bool:", '    """', "    post: _", '    """', "    pos_ok(0, _sk.box(g0, 0, 2), 0, 0, 0)", "    return False"])
    obs.append(Ob("twin0", tw, twin=True, group="twin"))
    return {
        "preamble": PREAMBLE,
        "obligations": obs,
        "level": "model_checking",
        "timeout": 1800.0,
        "path_timeout": 60.0,
        "batch": 1,
        "grade": "R/D",
        "functions_encoded": ["hy.reader.reader.Reader.getc / pos bookkeeping / fill_pos", "HyReader.parse_one_form and every handler (positions of sugar, strings with newlines, bracket strings, f-strings)",
                              "hy.models.Object position attributes"],
        "bounds": "%d multi-form programs (all form kinds incl. sugar (repeated), strings and bracket strings containing newlines / CR / CRLF, f-strings, nested and empty sequences); every gap between tokens chosen from "
                  "%r with period 4 (%d^4 layouts per program%s)" % (len(PROGRAMS), GAPS, ng, "" if tier == "thorough" else ", last selector restricted to 3 choices in quick"),
        "outside": "other programs and gaps; tab width; exact offsets of the literal text pieces of f-strings (only containment and source order are checked for them); lone CR as a line end",
        "stubs": ["reader call executed under crosshair.tracers.NoTracing"],
        "assumptions": ["region extraction is done by an independent line/column slicer on the source text (1-based, inclusive)"],
    }


MANIFEST = {
    "engine": "A",
    "level": "model_checking",
    "technique": "CrossHair/z3 enumerating layouts (folded selectors for every gap): positions from the real reader vs independent region slicing and re-reading",
    "text": "For every layout of each program, every model's (start, end) region is cut out of the source by an independent slicer and re-read: it must give an equal model; children lie "
            "within parents and appear in source order.",
    "note": "Grade R/D.",
}
