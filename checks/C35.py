"""C35: macro lookup and require follow the documented namespaces.

(a) Lookup order (Engine A, grade S): the real hy.macros.macroexpand is run with a compiler whose extra_macros, three
    local-state levels, the module table and the core table each define the name or not according to solver booleans.
(b) Histories of defmacro / require / pragma at module and local scope (grade D): enumerated scenarios run through the
    real compiler, compared with the documented outcome."""
from vf import strsym
from vf.xh import Ob

PREAMBLE = '''\
import sys
from vf import skel as _sk
from checks.C35 import lookup_ok, scenario_ok, N_SCEN
'''


def lookup_ok(ex, l0, l1, l2, mod, core, why=None):
    import builtins
    import types

    import hy
    from hy.compiler import HyASTCompiler
    from hy.macros import macroexpand
    from vf import skel

    if why is None and skel.EXPLAIN[0]:
        del skel.LAST_WHY[:]
        why = skel.LAST_WHY
    name = "vfm_lookup"

    def mk(n):
        def m():
            return hy.models.Integer(n)

        return m

    module = types.ModuleType("vfmod35")
    module._hy_macros = {}
    extra = {}
    if ex:
        extra[name] = mk(1)
    comp = HyASTCompiler(module, extra_macros=extra)
    # local states: outermost first; the base state created by the compiler is level 0 (module-level defmacro goes to the module table)
    levels = [l0, l1, l2]
    for i, on in enumerate(levels):
        comp.new_local_state()
        if on:
            comp.local_state_stack[-1]["macros"][name] = mk(10 + i)
    if mod:
        module._hy_macros[name] = mk(20)
    had_core = name in builtins._hy_macros
    if core:
        builtins._hy_macros[name] = mk(30)
    try:
        tree = hy.models.Expression([hy.models.Symbol(name)])
        out = macroexpand(tree, module, comp, once=True)
    finally:
        if core and not had_core:
            del builtins._hy_macros[name]
    # documented order: hy.eval's macros argument, local macros from innermost to outermost, module macros, core macros
    want = None
    if ex:
        want = 1
    elif l2:
        want = 12
    elif l1:
        want = 11
    elif l0:
        want = 10
    elif mod:
        want = 20
    elif core:
        want = 30
    if want is None:
        ok = isinstance(out, hy.models.Expression) and len(out) == 1
    else:
        ok = isinstance(out, hy.models.Integer) and int(out) == want
    if not ok and why is not None:
        why.append("definitions extra=%r locals(outer..inner)=%r module=%r core=%r: expansion %r, expected %r" % (ex, levels, mod, core, out, want))
    return ok


MACMOD_SRC = '''
(defmacro m1 [] 11)
(defmacro m2 [] 12)
(defmacro _private [] 13)
(defmacro with-bang! [] 14)
'''
MACMOD2_SRC = '''
(defmacro m1 [] 21)
(defmacro m2 [] 22)
(defmacro m3 [] 23)
(setv _hy_export_macros ["m2" "m3"])
'''

MACMOD3_SRC = '''
(defmacro m1 [] 31)
(defmacro m2 [] 32)
(setv _hy_export_macros [])
'''

MACMOD4_SRC = '''
(defmacro pub [] 41)
(defmacro _listed [] 42)
(defmacro __also-listed [] 43)
(defmacro _unlisted [] 44)
(export :macros [pub _listed __also-listed])
'''

# (program, expected value or ("error", class name) ; optional expected warning substring)
SCENARIOS = [
    ("(defmacro a [] 1) (a)", 1, None),
    ("(defmacro a [] 1) (defmacro a [] 2) (a)", 2, None),
    ("(defmacro a [] 1) (defn f [] (defmacro a [] 2) (a)) [(f) (a)]", [2, 1], None),
    ("(defn f [] (defmacro a [] 2) (a)) (defn g [] (a)) (f) (g)", ("error", "NameError"), None),
    ("(defmacro a [] 1) (defn f [] (defmacro a [] 2) (defn g [] (defmacro a [] 3) (a)) [(g) (a)]) [(f) (a)]", [[3, 2], 1], None),
    ("(defmacro a [] 1) (setv r (lfor i [1] (do (defmacro a [] 5) (a)))) [r (a)]", [[5], 1], None),
    ("(defmacro a [] 1) (defclass K [] (defmacro a [] 7) (setv v (a))) [K.v (a)]", [7, 1], None),
    ("(require vfmacmod35) [(vfmacmod35.m1) (vfmacmod35.m2)]", [11, 12], None),
    ("(require vfmacmod35) (m1)", ("error", "NameError"), None),
    ("(require vfmacmod35 :as P) [(P.m1) (P.with-bang!)]", [11, 14], None),
    ("(require vfmacmod35 [m1]) (m1)", 11, None),
    ("(require vfmacmod35 [m1]) (m2)", ("error", "NameError"), None),
    ("(require vfmacmod35 [m1 :as z m2]) [(z) (m2)]", [11, 12], None),
    ("(require vfmacmod35 [m1 :as z]) (m1)", ("error", "NameError"), None),
    ("(require vfmacmod35 *) [(m1) (m2) (with-bang!)]", [11, 12, 14], None),
    ("(require vfmacmod35 *) (_private)", ("error", "NameError"), None),
    ("(require vfmacmod35 [_private]) (_private)", 13, None),
    ("(require vfmacmod35b *) [(m2) (m3)]", [22, 23], None),
    ("(require vfmacmod35b *) (m1)", ("error", "NameError"), None),
    ("(require vfmacmod35b [m1]) (m1)", 21, None),
    # an empty export list exports nothing (it is not the same as having no export list)
    ("(require vfmacmod35c *) (m1)", ("error", "NameError"), None),
    ("(require vfmacmod35c *) (require vfmacmod35c [m2]) (m2)", 32, None),
    ("(defn f [] (require vfmacmod35c *) (m1)) (f)", ("error", "NameError"), None),
    # an export list that names underscore-led macros exports them
    ("(require vfmacmod35d *) [(pub) (_listed) (__also-listed)]", [41, 42, 43], None),
    ("(require vfmacmod35d *) (_unlisted)", ("error", "NameError"), None),
    ("(defn f [] (require vfmacmod35d *) (_listed)) (f)", 42, None),
    ("(require vfmacmod35 [nope])", ("error", "HyRequireError"), None),
    ("(require no_such_module_vf35)", ("error", "HyRequireError"), None),
    ("(require vfmacmod35 [m1]) (require vfmacmod35b [m1]) (m1)", 21, None),
    ("(require vfmacmod35 [m1]) (defmacro m1 [] 99) (m1)", 99, None),
    ("(defn f [] (require vfmacmod35 [m1]) (m1)) (f)", 11, None),
    ("(defn f [] (require vfmacmod35 [m1]) (m1)) (f) (m1)", ("error", "NameError"), None),
    ("(require vfmacmod35 :macros [m2]) (m2)", 12, None),
    ("(hy.R.vfmacmod35.m1)", 11, None),
    ("(defmacro when [#* a] 5) (when)", 5, "core macro"),
    ("(pragma :warn-on-core-shadow False) (defmacro when [#* a] 5) (when)", 5, "NOWARN"),
    ("(defn f [] (defmacro when [#* a] 6) (when 1 2)) [(f) (when True 3)]", [6, 3], "core macro"),
    ("(defmacro a [] 1) (hy.eval '(a))", 1, None),
    ("(defn f [] (defmacro lm [] 4) (hy.eval '(lm) :macros (local-macros))) (f)", 4, None),
    ("(defmacro a [] 1) (hy.eval '(a) :macros {\"a\" (fn [] 8)})", 8, None),
]
N_SCEN = len(SCENARIOS)


def _setup_modules():
    import sys
    import types

    import hy

    for nm, src in (("vfmacmod35", MACMOD_SRC), ("vfmacmod35b", MACMOD2_SRC), ("vfmacmod35c", MACMOD3_SRC), ("vfmacmod35d", MACMOD4_SRC)):
        if nm not in sys.modules:
            m = types.ModuleType(nm)
            sys.modules[nm] = m
            hy.eval(hy.read_many(src), m.__dict__, module=m)


def _scenario(i):
    import sys
    import types
    import warnings

    import hy

    _setup_modules()
    text, want, warn = SCENARIOS[i]
    mod = types.ModuleType("vfscen35_%d" % i)
    sys.modules[mod.__name__] = mod
    try:
        with warnings.catch_warnings(record=True) as ws:
            warnings.simplefilter("always")
            try:
                got = hy.eval(hy.read_many(text), mod.__dict__, module=mod)
            except Exception as e:
                got = ("error", type(e).__name__)
    finally:
        del sys.modules[mod.__name__]
    msgs = " | ".join(str(w.message) for w in ws)
    if isinstance(want, tuple) and want[0] == "error":
        if not (isinstance(got, tuple) and got[0] == "error" and (got[1] == want[1] or (want[1] == "NameError" and got[1] in ("NameError", "UnboundLocalError")))):
            return "%r: expected %s, got %r" % (text, want[1], got)
    elif got != want:
        return "%r: expected %r, got %r" % (text, want, got)
    if warn == "NOWARN":
        if "core macro" in msgs:
            return "%r: warned although the pragma disables it: %r" % (text, msgs)
    elif warn is not None:
        if warn not in msgs:
            return "%r: expected a warning containing %r, got %r" % (text, warn, msgs)
    else:
        if "core macro" in msgs:
            return "%r: unexpected shadow warning %r" % (text, msgs)
    return None


def scenario_ok(i, why=None):
    from vf import skel

    if why is None and skel.EXPLAIN[0]:
        del skel.LAST_WHY[:]
        why = skel.LAST_WHY
    r = strsym.untraced(_scenario, i)
    if r is not None and why is not None:
        why.append(r)
    return r is None


def finding_key(ob, rec):
    return "%s" % (rec.get("replay_detail"),)


def spec(tier, seed):
    obs = []
    L = ["def hlookup(ex: bool, l0: bool, l1: bool, l2: bool, mod: bool, core: bool) -> bool:", '    """', "    post: _", '    """', "    return lookup_ok(ex, l0, l1, l2, mod, core)"]
    obs.append(Ob("hlookup", "\n".join(L), sample="macroexpand with the name defined in extra_macros / 3 local levels / module / core according to 6 symbolic booleans", group="lookup-order"))
    chunk = 6
    for c0 in range(0, N_SCEN, chunk):
        n = min(chunk, N_SCEN - c0)
        fn = "s%d" % c0
        L = ["def %s(i: int) -> bool:" % fn, '    """', "    post: _", '    """', "    return scenario_ok(%d + _sk.box(i, 0, %d))" % (c0, n - 1)]
        obs.append(Ob(fn, "\n".join(L), sample="scenarios %r" % ([s[0] for s in SCENARIOS[c0:c0 + n]],), group="histories"))
    tw = "\n".join(["def twin0(ex: bool, mod: bool) -> bool:", '    """', "    post: _", '    """', "    lookup_ok(ex, False, False, False, mod, False)", "    return False"])
    obs.append(Ob("twin0", tw, twin=True, group="twin"))
    return {
        "preamble": PREAMBLE, "obligations": obs, "level": "exploration", "timeout": 1200.0, "path_timeout": 120.0, "batch": 1,
        "grade": "S for the lookup order (6 membership bits are solver variables, macroexpand traced); D for the defmacro/require/pragma histories (enumerated scenarios)",
        "functions_encoded": ["hy.macros.macroexpand (namespace selection)", "hy.macros.require / require_vals / enable_readers", "hy.core.result_macros: defmacro, require, pragma; hy.compiler local_state",
                              "hy.core.macros: local-macros, export"],
        "bounds": "lookup order: all 64 assignments of {extra_macros, local level 0/1/2, module table, core table}; %d scenarios over defmacro at module / function / nested function / comprehension / "
                  "class scope, require with bare module, :as prefix, name lists with :as aliases, *, _hy_export_macros, private names, :macros, hy.R one-shot syntax, missing names/modules, "
                  "redefinition order, local require, hy.eval with and without :macros, core shadowing with and without the pragma" % N_SCEN,
        "outside": "random longer histories (the property's generator); reader-macro require (C37); require of packages / relative modules",
        "stubs": ["scenario runs executed under crosshair.tracers.NoTracing; two macro modules are created in sys.modules by the harness"],
        "assumptions": ["expected outcomes are written by hand from docs/api.rst (require) and docs/macros.rst (namespaces)"],
    }


MANIFEST = {
    "engine": "A", "level": "exploration",
    "technique": "CrossHair/z3 symbolic membership bits over the real macroexpand's namespace selection; enumerated defmacro/require/pragma scenarios through the real compiler",
    "text": "The namespace selection of the real macroexpand is executed by CrossHair with six solver booleans saying which tables define the name; the expansion must come from the first table "
            "in the documented order. Defmacro/require/pragma histories are enumerated scenarios with hand-derived expected results (grade D).",
    "note": "Lookup order: all 64 assignments (grade S). Histories: only the listed scenarios.",
}
