"""C41: the hy command line: mode selection, argument passing and sys.argv (Engine A, trailing arguments symbolic)."""
from vf.xh import Ob

PREAMBLE = '''\
import sys
from typing import List
from vf import skel as _sk
from checks.C41 import cmd_ok
'''

OPTS = [[], ["-B"], ["-E"], ["-B", "-E"], ["-BE"], ["-EB"]]
MODES = ["-c", "-m", "FILE", "-"]


class _Rec(Exception):
    pass


def cmd_ok(mode, oi, dd, rest, why=None):
    """Run the real cmdline_handler with every side-effecting callee replaced by a recorder."""
    import io
    import os
    import sys
    from pathlib import Path

    import hy
    import hy.cmdline as C
    from vf import skel

    if why is None and skel.EXPLAIN[0]:
        del skel.LAST_WHY[:]
        why = skel.LAST_WHY
    rec = []
    saved = dict(run_command=C.run_command, run_module=C.runpy.run_module, run_path=C.runhy.run_path, REPL=C.REPL, set_path=C.set_path,
                 rm=C._remove_python_envs, stdin=sys.stdin, argv=sys.argv, exe=sys.executable, hyexe=getattr(hy, "executable", None),
                 hysys=getattr(hy, "sys_executable", None), dwb=sys.dont_write_bytecode)

    class FakeStdin:
        def isatty(self):
            return False

        def read(self):
            return "STDIN-CODE"

    class FakeREPL:
        def __init__(self, **kw):
            rec.append(("REPL", kw))

        def run(self):
            rec.append(("repl.run",))
            return 0

        def runsource(self, *a, **k):
            rec.append(("repl.runsource", a))
            return False

    def run_command(source, filename=None):
        rec.append(("run_command", source, filename, list(sys.argv)))
        return 0

    def run_module(name, **kw):
        rec.append(("run_module", name, kw.get("run_name"), list(sys.argv)))

    def run_path(path, **kw):
        rec.append(("run_path", path, kw.get("run_name"), list(sys.argv)))

    C.run_command = run_command
    C.runpy.run_module = run_module
    C.runhy.run_path = run_path
    C.REPL = FakeREPL
    C.set_path = lambda *a: rec.append(("set_path", a))
    C._remove_python_envs = lambda: rec.append(("remove_envs",))
    sys.stdin = FakeStdin()
    opts = list(OPTS[oi])
    margs = {0: ["-c", "CODE"], 1: ["-m", "some-mod"], 2: ["script.hy"], 3: ["-"]}[mode]
    if dd and mode in (2, 3):
        margs = ["--"] + margs
    argv = ["hy"] + opts + margs + list(rest)
    out = None
    try:
        try:
            rc = C.cmdline_handler(argv)
            out = ("rc", rc)
        except C.HyArgError as e:
            out = ("argerror", str(e))
        except SystemExit as e:
            out = ("exit", e.code)
        final_argv = list(sys.argv)
    finally:
        C.run_command = saved["run_command"]
        C.runpy.run_module = saved["run_module"]
        C.runhy.run_path = saved["run_path"]
        C.REPL = saved["REPL"]
        C.set_path = saved["set_path"]
        C._remove_python_envs = saved["rm"]
        sys.stdin = saved["stdin"]
        sys.argv = saved["argv"]
        sys.executable = saved["exe"]
        sys.dont_write_bytecode = saved["dwb"]
        if saved["hyexe"] is not None:
            hy.executable = saved["hyexe"]
        if saved["hysys"] is not None:
            hy.sys_executable = saved["hysys"]

    def bad(msg):
        if why is not None:
            why.append("hy %s: %s (recorded %r, outcome %r)" % (" ".join(repr(a) for a in argv[1:]), msg, rec, out))
        return False

    if out[0] != "rc" or out[1] != 0:
        return bad("expected exit status 0 from the handler")
    acts = [r for r in rec if r[0] in ("run_command", "run_module", "run_path", "REPL", "repl.run")]
    if len(acts) != 1:
        return bad("expected exactly one action")
    a = acts[0]
    rest = list(rest)
    if mode == 0:
        if not (a[0] == "run_command" and a[1] == "CODE" and a[2] == "<string>"):
            return bad("-c must run the command string")
        want = ["-c"] + rest
    elif mode == 1:
        if not (a[0] == "run_module" and a[1] == hy.mangle("some-mod") and a[2] == "__main__"):
            return bad("-m must run the (mangled) module as __main__")
        want = ["hy"] + rest
    elif mode == 2:
        if not (a[0] == "run_path" and a[1].endswith("script.hy") and os.path.isabs(a[1]) and a[2] == "__main__"):
            return bad("FILE must be run by absolute path as __main__")
        want = ["script.hy"] + rest
    else:
        if not (a[0] == "run_command" and a[1] == "STDIN-CODE" and a[2] == "<stdin>"):
            return bad("- must run standard input")
        want = ["-"] + rest
    seen = a[3]
    if len(seen) != len(want):
        return bad("program saw sys.argv %r, documented %r" % (seen, want))
    for x, y in zip(seen, want):
        if x != y:
            return bad("program saw sys.argv %r, documented %r" % (seen, want))
    if ("-E" in opts or "-BE" in opts or "-EB" in opts) != any(r[0] == "remove_envs" for r in rec):
        return bad("-E handling")
    return True


def spec(tier, seed):
    obs = []
    nrest = 2 if tier == "quick" else 3
    for mode in range(4):
        for oi in range(len(OPTS)):
            if tier == "quick" and oi not in (0, 3, 4):
                continue
            for dd in ((False, True) if mode in (2, 3) else (False,)):
                fn = "h%d_%d_%d" % (mode, oi, int(dd))
                L = ["def %s(rest: List[str]) -> bool:" % fn, '    """', "    pre: len(rest) <= %d and all(len(r) <= %d for r in rest)" % (nrest, 3 if tier == "thorough" else 2),
                     "    post: _", '    """', "    return cmd_ok(%d, %d, %r, rest)" % (mode, oi, dd)]
                obs.append(Ob(fn, "\n".join(L), sample="hy %s %s%s REST...  with REST a symbolic list of <= %d strings" % (" ".join(OPTS[oi]), "-- " if dd else "",
                              {0: "-c CODE", 1: "-m some-mod", 2: "script.hy", 3: "-"}[mode], nrest), group=MODES[mode]))
    tw = "\n".join(["def twin0(rest: List[str]) -> bool:", '    """', "    pre: len(rest) <= 1 and all(len(r) <= 2 for r in rest)", "    post: _", '    """', "    cmd_ok(0, 0, False, rest)", "    return False"])
    obs.append(Ob("twin0", tw, twin=True, group="twin"))
    return {
        "preamble": PREAMBLE,
        "obligations": obs,
        "level": "model_checking",
        "timeout": 600.0,
        "path_timeout": 60.0,
        "batch": 2,
        "grade": "S (the trailing argument strings are unconstrained solver strings: -m, --, -c, -, -i, --spy ... are found by the solver)",
        "functions_encoded": ["hy.cmdline.cmdline_handler (option loop proc_opt, mode selection, sys.argv assignment)"],
        "bounds": "modes -c CODE / -m MODULE / FILE / - (standard input), preceded by option sets %r and optionally `--` (FILE and - modes), followed by a symbolic list of <= %d strings of "
                  "length <= %d" % (OPTS if tier == "thorough" else [OPTS[i] for i in (0, 3, 4)], nrest, 3 if tier == "thorough" else 2),
        "outside": "NOT APPLICABLE part: 'same output and exit status in all four modes' needs whole-process runs (subprocess, runpy, file system) that no encoding here reaches; also -i/--spy/"
                   "--repl-output-fn (REPL modes), -u, -h, -v",
        "stubs": ["run_command, runpy.run_module, runhy.run_path, REPL, set_path, _remove_python_envs, sys.stdin replaced by recorders (the program is not actually run)"],
        "assumptions": ["documented sys.argv: ['-c', ARGS...], [program, ARGS...] for -m (runpy then sets argv[0] to the module file), [FILE, ARGS...], ['-', ARGS...]"],
        "traces_validated": 0,
    }


MANIFEST = {
    "engine": "A",
    "level": "model_checking",
    "technique": "CrossHair/z3 symbolic execution of the real cmdline_handler with symbolic trailing argument strings and recorder stubs for the run actions",
    "text": "The real option loop and mode selection are executed by CrossHair with an unconstrained list of trailing argument strings; in every mode exactly the documented action must be "
            "taken with the documented argument, the program must see the documented sys.argv, and no trailing argument may be consumed as a Hy option. The cross-mode output/exit-status "
            "equality of the property needs whole-process runs and is not claimed.",
    "note": "Partial claim (argument handling only). Trusted: CrossHair's str/list models, z3.",
}
