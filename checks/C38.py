"""C38: hy.gensym returns distinct reserved symbols under any thread schedule.

(a) Engine Z: bounded model checking (z3) of the critical section, generated from the real function's bytecode.
(b) Engine A: CrossHair on gensym(g) for symbolic g over a small alphabet: result starts with _hy_ and is already mangled."""
import time

from vf.xh import Ob

PREAMBLE = '''\
import sys
from vf import skel as _sk
from checks.C38 import gensym_ok, ALPH
'''

ALPH = "aZ9_-.!? é＿ｆ́"


def gensym_ok(g):
    import hy
    import hy.core.util as _u

    _u._gensym_counter = 0  # deterministic re-execution of a path (the counter is the subject of part (a))

    r = hy.gensym(g)
    s = str(r)
    if not isinstance(r, hy.models.Symbol):
        return False
    if not s.startswith("_hy_"):
        return False
    if hy.mangle(s) != s:
        return False
    return True


def spec(tier, seed):
    obs = []
    # (b) argument strings: one obligation per first character (partition), remaining characters symbolic
    maxlen = 2 if tier == "quick" else 3
    for i, ch in enumerate(ALPH):
        fn = "h%d" % i
        sel = ", ".join("i%d" % k for k in range(maxlen - 1))
        L = ["def %s(%s) -> bool:" % (fn, ", ".join("i%d: int" % k for k in range(maxlen - 1))), '    """', "    post: _", '    """',
             "    return gensym_ok(%r + _sk.pick_str(ALPH, [%s]))" % (ch, sel)]
        obs.append(Ob(fn, "\n".join(L), sample="gensym(%r + rest), rest over %r, len(rest) <= %d" % (ch, ALPH, maxlen - 1), group="argument"))
    L = ["def hempty(x: int) -> bool:", '    """', "    post: _", '    """', "    return gensym_ok('') and gensym_ok(str(0))"]
    obs.append(Ob("hempty", "\n".join(L), sample="gensym('')", group="argument"))
    tw = "\n".join(["def twin0(i0: int) -> bool:", '    """', "    post: _", '    """',
                    "    gensym_ok('a' + _sk.pick_str(ALPH, [i0]))", "    return False"])
    obs.append(Ob("twin0", tw, twin=True, group="twin"))

    def extra(tier_, seed_, workdir):
        import hy
        import hy.core.util as u
        from vf import bmc

        recs = []
        try:
            steps, nvar = bmc.extract(u.gensym)
        except bmc.Unrecognised as e:
            return [{"name": "bmc-translate", "verdict": "CANNOT_CONFIRM", "message": "bytecode not recognised: %s" % e, "sample": "dis(hy.core.util.gensym)",
                     "paths": 0, "queries": 0, "solver_s": 0.0, "group": "bmc", "twin": False}]
        desc = [(k, off) for k, off, _ in steps]
        configs = [(2, 1), (3, 1), (2, 2)] if tier_ == "quick" else [(2, 1), (3, 1), (2, 2), (4, 1), (3, 2), (2, 3), (5, 1), (6, 1), (7, 1), (3, 3), (4, 2)]
        for T, calls in configs:
            t0 = time.time()
            res = bmc.check(steps, T, calls)
            rec = {"name": "bmc:T=%d,calls=%d" % (T, calls), "sample": "steps from bytecode %r; %d threads x %d calls; schedule and initial counter symbolic" % (desc, T, calls),
                   "paths": 1, "queries": 1, "solver_s": res[-1]["solver_s"] if isinstance(res[-1], dict) else res[3]["solver_s"], "group": "bmc", "twin": False, "nontrivial": True}
            if res[0] == "unsat":
                rec["verdict"] = "CONFIRMED"
                rec["stats"] = res[1]
            elif res[0] == "sat":
                schedule, c0 = res[1], res[2]
                results, final, stuck = bmc.replay(u.gensym, steps, T, calls, schedule, c0, u)
                flat = [x for r in results for x in r]
                dup = len(set(flat)) != len(flat)
                wrong = final != c0 + T * calls
                rec["verdict"] = "POST_FAIL"
                rec["cex"] = {"args": [schedule, c0], "kwargs": {}}
                rec["reproduces"] = True if (dup or wrong) and not stuck else False
                rec["replay_detail"] = "schedule %r from c0=%d: real threads returned %r, final counter %r%s" % (schedule, c0, results, final, " (replay scheduler timed out)" if stuck else "")
            else:
                rec["verdict"] = "CANNOT_CONFIRM"
                rec["message"] = "z3: %s" % (res[1],)
            recs.append(rec)
        # vacuity twin for the BMC: without the lock steps the property must be refutable
        nolock = [("SKIP", s_[1], None) if s_[0] in ("ACQ", "REL") else s_ for s_ in steps]
        res = bmc.check(nolock, 2, 1)
        recs.append({"name": "bmc-twin-nolock", "verdict": "POST_FAIL" if res[0] == "sat" else "CONFIRMED", "twin": True, "sample": "same system with ACQ/REL removed must have a bad schedule",
                     "paths": 1, "queries": 1, "solver_s": 0.0, "group": "twin"})
        return recs

    return {
        "preamble": PREAMBLE,
        "obligations": obs,
        "extra": extra,
        "level": "model_checking",
        "timeout": 240.0,
        "path_timeout": 30.0,
        "batch": 1,
        "grade": "S (schedules, initial counter); R for the argument strings (mangle realises characters)",
        "functions_encoded": ["hy.core.util.gensym: critical section translated from its bytecode (vf/bmc.py); whole function traced for the argument clause", "hy.reader.mangling.mangle"],
        "bounds": "(a) %s threads x calls, every interleaving of the shared steps (acquire, counter read, counter write, counter read into n, release), symbolic initial counter; "
                  "(b) argument strings of length <= %d over the alphabet %r (first character fixed per obligation)" % (
                      "(2,1) (3,1) (2,2)" if tier == "quick" else "(2,1) (3,1) (2,2) (4,1) (3,2) (2,3) (5,1) (6,1) (7,1) (3,3) (4,2)", maxlen, ALPH),
        "outside": "more threads/calls; free-threaded builds; arguments outside the alphabet; non-str arguments; distinctness across different argument strings relies on n being distinct "
                   "(the formatted name is injective in n for a fixed separator)",
        "stubs": ["threading.Lock modelled as a mutex (enabled iff free)"],
        "assumptions": ["each bytecode instruction is atomic under the GIL (CPython); the translator understands only the straight-line prefix of gensym and answers inconclusive otherwise"],
        "traces_validated": 1,
    }


MANIFEST = {
    "engine": "Z",
    "level": "model_checking",
    "technique": "z3 bounded model checking of a transition system generated from gensym's bytecode (all schedules, symbolic initial counter) + CrossHair on the argument clause",
    "text": "The acquire / read / write / read / release steps are extracted from the real function's bytecode; z3 decides, for 2-3 threads and 1-2 calls each, that under every interleaving "
            "the numbers handed out are pairwise distinct and the counter advances by the number of calls; a satisfying schedule is replayed on the real function with real threads "
            "serialised through sys.monitoring. The prefix/mangling clause is checked by CrossHair over a bounded alphabet.",
    "note": "Bounded in threads, calls and string length. Trusted: z3, CPython's GIL atomicity of single instructions, threading.Lock semantics.",
}
