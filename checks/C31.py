"""C31: quasiquote substitutes unquotes at the right nesting level (Engine B; substituted values symbolic)."""
import itertools

from vf.xh import Ob

PREAMBLE = '''\
import sys, types
from typing import List, Optional
from vf import skel as _sk
from checks.C31 import qq_agree
'''

# template language (python tuples): ("sym", name) | ("int", n) | ("list"|"expr"|"tuple"|"set"|"dict", [items]) |
# ("uq", var) | ("uqs", var) | ("qq", template) | ("q", template) | ("uq-form", hytext, pyfunc-name)
KINDS = ("expr", "list", "tuple", "set", "dict")
OPEN = {"expr": "(", "list": "[", "tuple": "#(", "set": "#{", "dict": "{"}
CLOSE = {"expr": ")", "list": "]", "tuple": ")", "set": "}", "dict": "}"}


def hy(t):
    k = t[0]
    if k == "sym":
        return t[1]
    if k == "int":
        return str(t[1])
    if k in KINDS:
        return OPEN[k] + " ".join(hy(x) for x in t[1]) + CLOSE[k]
    if k == "uq":
        return "~" + t[1]
    if k == "uqs":
        return "~@" + t[1]
    if k == "qq":
        return "`" + hy(t[1])
    if k == "q":
        return "'" + hy(t[1])
    if k == "uqt":
        return "~" + hy(t[1])
    if k == "uqst":
        return "~@" + hy(t[1])
    if k == "sp":      # an operator written out, in any spelling that mangles to the same name: (unquote_splice ys)
        return "(" + t[1] + " " + (t[2] if isinstance(t[2], str) else hy(t[2])) + ")"
    raise ValueError(t)


def reference(t, env, level=0):
    """Reference substitution: returns a plain-python description of the expected model:
    ("sym", name) | ("int", n) | (kind, [items]) | ("val", python value to be promoted)."""
    k = t[0]
    if k in ("sym", "int"):
        return [t]
    if k in KINDS:
        out = []
        for x in t[1]:
            out.extend(reference(x, env, level))
        return [(k, out)]
    if k == "uq":
        if level == 0:
            return [("val", env[t[1]])]
        # inside a deeper quasiquote level the form stays literal
        return [("expr", [("sym", "unquote"), ("sym", t[1])])]
    if k == "uqs":
        if level == 0:
            v = env[t[1]]
            return [("val", e) for e in (v or [])]
        return [("expr", [("sym", "unquote-splice"), ("sym", t[1])])]
    if k == "qq":
        return [("expr", [("sym", "quasiquote")] + reference(t[1], env, level + 1))]
    if k == "q":
        return [("expr", [("sym", "quote")] + reference(t[1], env, level))]
    if k in ("uqt", "uqst"):
        # an unquote whose operand is itself a template: only generated below a deeper quasiquote (level > 0),
        # where it lowers the level by one for its operand and otherwise stays literal
        assert level > 0
        return [("expr", [("sym", "unquote" if k == "uqt" else "unquote-splice")] + reference(t[1], env, level - 1))]
    if k == "sp":
        op = t[1].replace("_", "-")
        if op == "quasiquote":
            return [("expr", [("sym", t[1])] + reference(t[2], env, level + 1))]
        if level == 0:
            return reference(("uq" if op == "unquote" else "uqs", t[2]), env, 0)
        if isinstance(t[2], str):
            return [("expr", [("sym", t[1]), ("sym", t[2])])]
        return [("expr", [("sym", t[1])] + reference(t[2], env, level - 1))]
    raise ValueError(t)


def _inner_uq(var, env, level):
    # an unquote inside a deeper quasiquote level: its operand is itself subject to substitution at the level below
    return ("sym", var)


def to_model(d):
    import hy

    k = d[0]
    if k == "sym":
        return hy.models.Symbol(d[1])
    if k == "int":
        return hy.models.Integer(d[1])
    if k == "val":
        return hy.as_model(d[1])
    cls = {"expr": hy.models.Expression, "list": hy.models.List, "tuple": hy.models.Tuple, "set": hy.models.Set, "dict": hy.models.Dict}[k]
    return cls([to_model(x) for x in d[1]])


def model_eq(a, b):
    """Equality of model trees including node types (symbolic ints compared with ==)."""
    import hy

    if type(a) is not type(b):
        return False
    if isinstance(a, hy.models.Sequence):
        if len(a) != len(b):
            return False
        for x, y in zip(a, b):
            if not model_eq(x, y):
                return False
        return True
    return a == b


def raw_eq(got, want):
    """Compare the raw quasiquote result with the reference *before* promotion of substituted values:
    substituted values may be symbolic ints (hy.as_model must not see CrossHair proxies)."""
    import hy

    k = want[0]
    if k == "val":
        v = want[1]
        if isinstance(v, int) and not isinstance(v, bool):
            return (isinstance(got, int) and got == v)
        return got == v
    if k == "sym":
        return type(got) is hy.models.Symbol and str(got) == want[1]
    if k == "int":
        return type(got) is hy.models.Integer and int(got) == want[1]
    cls = {"expr": hy.models.Expression, "list": hy.models.List, "tuple": hy.models.Tuple, "set": hy.models.Set, "dict": hy.models.Dict}[k]
    if type(got) is not cls or len(got) != len(want[1]):
        return False
    for g, w in zip(got, want[1]):
        if not raw_eq(g, w):
            return False
    return True


def qq_agree(prog, tpl, x, y, ys, zs, why=None):
    from vf import skel

    if why is None and skel.EXPLAIN[0]:
        del skel.LAST_WHY[:]
        why = skel.LAST_WHY
    if prog[0] != "ok":
        if why is not None:
            why.append("rejected: %r" % (prog[1:3],))
        return False
    env = {"x": x, "y": y, "ys": ys, "zs": zs}
    g = {}
    for k in env:
        g[k] = env[k]
    try:
        got = skel.run_code(prog, g)
    except Exception as e:
        if why is not None:
            why.append("raised %r" % (e,))
        return False
    # the outermost quasiquote itself is consumed: the result is the template at level 0
    want = reference(tpl, env, 0)
    if len(want) != 1:
        return True  # a splice at top level of the template: not a single form (not generated)
    ok = raw_eq(got, want[0])
    if not ok and why is not None:
        why.append("got %r, reference %r" % (got, want[0]))
    return ok


ATOMS = [("sym", "a"), ("int", 7), ("uq", "x"), ("uqs", "ys"), ("uq", "y"), ("uqs", "zs")]


def templates(tier):
    out = []
    maxn = 2 if tier == "quick" else 3
    inner_atoms = [("sym", "b"), ("uq", "x"), ("uqs", "ys")]
    # size-1..maxn sequences of atoms in every container kind
    for kind in KINDS:
        for n in range(0, maxn + 1):
            for items in itertools.product(ATOMS, repeat=n):
                if kind == "dict" and n % 2 and not any(i[0] == "uqs" for i in items):
                    continue
                out.append((kind, list(items)))
    # nested containers
    for k1 in KINDS:
        for k2 in KINDS:
            for items in itertools.product(inner_atoms, repeat=2):
                out.append((k1, [("sym", "h"), (k2, list(items)), ("uq", "y")]))
    # nested quasiquote / quote levels
    for kind in ("expr", "list"):
        for items in itertools.product(inner_atoms, repeat=2):
            out.append((kind, [("sym", "h"), ("qq", (kind, list(items))), ("uq", "x")]))
            out.append((kind, [("q", (kind, list(items))), ("uqs", "zs")]))
            out.append((kind, [("qq", ("list", [("qq", (kind, list(items)))])), ("uq", "y")]))
    # the same subform at two different quasiquote levels in one template, in both orders; unquotes whose operand
    # holds further unquotes (level arithmetic: ~ and ~@ lower the level for their operand)
    subs = [("expr", [("sym", "g"), ("uq", "x")]), ("list", [("uqs", "ys"), ("sym", "b")]), ("expr", [("sym", "g"), ("uqs", "ys"), ("uq", "y")])]
    for S in subs:
        out.append(("list", [("qq", S), S]))
        out.append(("list", [S, ("qq", S)]))
        out.append(("expr", [("sym", "h"), ("qq", ("expr", [("sym", "k"), S])), S, ("qq", S)]))
        out.append(("list", [("qq", ("list", [("uqt", S), S])), S]))
        out.append(("list", [S, ("qq", ("list", [S, ("uqt", S)]))]))
        out.append(("expr", [("sym", "h"), ("qq", ("expr", [("sym", "k"), ("uqst", S)]))]))
        out.append(("list", [("qq", ("list", [("qq", S), ("uqt", ("list", [("qq", S), S]))]))]))
    out.append(("list", [("qq", ("list", [("uqt", ("uq", "x")), ("uqt", ("sym", "x")), ("uq", "x")]))]))
    out.append(("list", [("qq", ("list", [("uqst", ("uq", "ys")), ("uqt", ("uqs", "ys"))]))]))
    # operators written out, in every spelling that mangles to the operator's name
    for un in ("unquote",):
        for us in ("unquote-splice", "unquote_splice"):
            for qs in ("quasiquote",):
                out.append(("list", [("sym", "a"), ("sp", us, "ys"), ("sp", un, "x")]))
                out.append(("expr", [("sym", "a"), ("sp", qs, ("expr", [("sym", "b"), ("sp", us, ("expr", [("sym", "c"), ("uq", "x")]))]))]))
                out.append(("expr", [("sym", "a"), ("sp", qs, ("list", [("sp", un, ("sp", us, "ys")), ("sp", us, "zs")])), ("sp", us, "zs")]))
    return out


def spec(tier, seed):
    obs = []
    n = 0
    for tpl in templates(tier):
        text = "`" + hy(tpl)
        fn = "h%d" % n
        n += 1
        L = ["P_%s = _sk.compile_prog(%r)" % (fn, text), "T_%s = %r" % (fn, tpl),
             "def %s(x: int, y: int, ys: Optional[List[int]], zs: List[int]) -> bool:" % fn, '    """',
             "    pre: (ys is None or len(ys) <= 2) and len(zs) <= 2", "    post: _", '    """',
             "    return qq_agree(P_%s, T_%s, x, y, ys, zs)" % (fn, fn)]
        obs.append(Ob(fn, "\n".join(L), sample=text + "   with x, y: int, ys: None | list(len<=2), zs: list(len<=2)", group=tpl[0]))
    tw = "\n".join(["P_twin0 = _sk.compile_prog('`(a ~x [b ~@ys])')", "T_twin0 = ('expr', [('sym', 'a'), ('uq', 'x'), ('list', [('sym', 'b'), ('uqs', 'ys')])])",
                    "def twin0(x: int, y: int, ys: Optional[List[int]], zs: List[int]) -> bool:", '    """', "    pre: (ys is None or len(ys) <= 2) and len(zs) <= 2",
                    "    post: _", '    """', "    qq_agree(P_twin0, T_twin0, x, y, ys, zs)", "    return False"])
    obs.append(Ob("twin0", tw, twin=True, group="twin"))

    def extra(tier_, seed_, workdir):
        """Promotion of substituted values (concrete pool: hy.as_model must not see solver proxies)."""
        import hy
        from vf import skel

        recs = []
        pool = [0, -3, 2 ** 70, 1.5, "s", b"b", True, None, [1, "a"], (1, 2), {"k": 1}, hy.models.Symbol("q"), hy.models.Keyword("kw"), 2j]
        prog = skel.compile_prog("`(a ~x [~@ys] #(~x))")
        bad = []
        for v in pool:
            g = {"x": v, "ys": [v, v]}
            got = skel.run_code(prog, g)
            want = hy.models.Expression([hy.models.Symbol("a"), hy.as_model(v), hy.models.List([hy.as_model(v), hy.as_model(v)]),
                                         hy.models.Tuple([hy.as_model(v)])])
            full = hy.as_model(got)
            if not model_eq(full, want):
                bad.append((v, full, want))
        recs.append({"name": "promotion-pool", "verdict": "CONFIRMED" if not bad else "POST_FAIL", "reproduces": None if not bad else True,
                     "sample": "`(a ~x [~@ys] #(~x)) with x from a pool of %d values of every promotable type" % len(pool), "cex": {"args": [], "kwargs": {}},
                     "replay_detail": repr(bad[:2]), "paths": len(pool), "queries": 0, "solver_s": 0.0, "group": "promotion", "twin": False, "nontrivial": True})
        return recs

    return {
        "preamble": PREAMBLE,
        "obligations": obs,
        "extra": extra,
        "level": "translation_validation",
        "timeout": 60.0,
        "path_timeout": 20.0,
        "batch": 24,
        "grade": "S (substituted ints / lists / None symbolic); promotion of other value types from a concrete pool (D)",
        "functions_encoded": ["hy.core.result_macros.compile_quasiquote / render_quoted_form (unquote, unquote-splice, nesting levels)", "hy.compiler model construction code emitted for quoted forms"],
        "bounds": "templates: every container kind {expression, list, tuple, set, dict} with 0..%d items over {symbol, integer, ~x, ~y, ~@ys, ~@zs} in every order; container-in-container "
                  "(25 kind pairs x 9 item pairs); nested quasiquote (levels 1-2) and quote inside the template; x, y symbolic ints; ys symbolic None | list of ints (len<=2); zs list (len<=2)"
                  % (2 if tier == "quick" else 3),
        "outside": "templates larger than stated; unquote forms that are themselves calls; promotion of substituted values is checked on a concrete pool only",
        "stubs": ["crosshair.util.getsourcelines wrapper for .hy-defined callees"],
        "assumptions": ["reference substitution function checks/C31.py:reference, written from docs (unquote at level 0 -> value, unquote-splice -> elements of (or value []), deeper levels literal)",
                        "comparison is on the raw result (models containing the raw substituted values), because hy.as_model cannot be given solver proxies"],
    }


MANIFEST = {
    "engine": "B",
    "level": "translation_validation",
    "technique": "CrossHair/z3 symbolic substituted values: code the real compiler emits for quasiquote templates vs a reference substitution function",
    "text": "Every template up to the bound (all container kinds, unquote / unquote-splice at every position, nested quasiquote and quote) is compiled by the real compiler and evaluated with "
            "solver-chosen x, y, ys (None, empty or not) and zs; the resulting model tree must equal the reference substitution node by node (types included).",
    "note": "Bounded by template size. Trusted: CPython, CrossHair, z3.",
}
