"""C20: whitespace, comments, discards and reader sugar are transparent (grade R/D: separators are folded selectors)."""
from vf import readerlib, strsym
from vf.xh import Ob

PREAMBLE = '''\
import sys
from vf import skel as _sk
from checks.C20 import sep_ok, concat_ok, sugar_ok
'''

FORMS = ["a", "(f x 1)", "[1 2]", "\"s t\"", ":kw", "{\"k\" 1.5}", "#[[b s]]", "'q", "f\"{x}\"", "#(1)", "b\"y\"", "x.y", "#{1}", "`(a ~b)", "-3", "#* xs", "#^ int v"]
SEPS = [" ", "\t", "\n", "\r", "\f", "\v", "  ", "\r\n", " ; c\n", ";\n", "\n;; c (\n ", " #_ x ", " #_(a b) ", " #_ \"s\" ", " #_ #_ a b ", " #_[1]\n", "\n\n\t "]
SEQS = [[0, 1, 2], [3, 4, 5, 6], [7, 8, 9], [10, 11, 12, 13], [14, 15, 16, 0], [1, 1], [6, 3, 8]]

INNER = ["x", "(f 1)", "[a b]", "\"s\"", "'y", "x.y", ":k", "#(1 2)", "{1 2}"]
SUGAR = [("'", "quote", 1), ("`", "quasiquote", 1), ("~", "unquote", 1), ("~@", "unquote-splice", 1), ("#* ", "unpack-iterable", 1), ("#** ", "unpack-mapping", 1), ("#^ ", "annotate", 2)]


def _sep_ok(seq, seps, lead, trail):
    forms = [FORMS[i] for i in SEQS[seq]]
    base = readerlib.read_all(" ".join(forms))
    text = SEPS[lead] if lead >= 0 else ""
    for i, f in enumerate(forms):
        text += f
        if i < len(forms) - 1:
            text += SEPS[seps[i]]
    text += SEPS[trail] if trail >= 0 else ""
    got = readerlib.read_all(text)
    if base[0] != "ok":
        return "baseline does not read: %r" % (base,)
    if got[0] != "ok" or not readerlib.meq(got[1], base[1]):
        return "with separators %r reads %r, with single spaces %r" % (text, got, base[1])
    return None


def sep_ok(seq, s0, s1, s2, lead, trail, why=None):
    from vf import skel

    if why is None and skel.EXPLAIN[0]:
        del skel.LAST_WHY[:]
        why = skel.LAST_WHY
    r = strsym.untraced(_sep_ok, seq, [s0, s1, s2], lead, trail)
    if r is not None and why is not None:
        why.append(r)
    return r is None


def _concat_ok(a, b, k):
    """texts that each hold whole forms: reading the concatenation gives the concatenation of the model lists"""
    t1 = " ".join(FORMS[i] for i in SEQS[a][:k]) + "\n"
    t2 = " ".join(FORMS[i] for i in SEQS[b])
    r1, r2, r12 = readerlib.read_all(t1), readerlib.read_all(t2), readerlib.read_all(t1 + t2)
    if not (r1[0] == r2[0] == r12[0] == "ok"):
        return "does not read: %r %r %r" % (r1, r2, r12)
    if not readerlib.meq(r12[1], r1[1] + r2[1]):
        return "read(%r + %r) != read(..) + read(..)" % (t1, t2)
    return None


def concat_ok(a, b, k, why=None):
    from vf import skel

    if why is None and skel.EXPLAIN[0]:
        del skel.LAST_WHY[:]
        why = skel.LAST_WHY
    r = strsym.untraced(_concat_ok, a, b, k)
    if r is not None and why is not None:
        why.append(r)
    return r is None


def _sugar_ok(si, i1, i2, sp=-1):
    pfx, name, n = SUGAR[si]
    args = [INNER[i1]] + ([INNER[i2]] if n == 2 else [])
    if sp < 0:
        short = pfx + " ".join(args)
    else:
        # any separator (whitespace, comment, discard) between the mark and its operand(s) is transparent too
        short = pfx.strip() + SEPS[sp] + SEPS[sp].join(args)
    if name == "annotate":
        long_ = "(annotate %s %s)" % (args[1], args[0])
    else:
        long_ = "(%s %s)" % (name, args[0])
    a, b = readerlib.read_all(short), readerlib.read_all(long_)
    if a[0] != "ok" or b[0] != "ok" or not readerlib.meq(a[1], b[1]):
        return "%r reads %r but %r reads %r" % (short, a, long_, b)
    return None


def sugar_ok(si, i1, i2, why=None, sp=-1):
    from vf import skel

    if why is None and skel.EXPLAIN[0]:
        del skel.LAST_WHY[:]
        why = skel.LAST_WHY
    r = strsym.untraced(_sugar_ok, si, i1, i2, sp)
    if r is not None and why is not None:
        why.append(r)
    return r is None


def finding_key(ob, rec):
    return "%s" % (rec.get("replay_detail"),)


def spec(tier, seed):
    obs = []
    ns = len(SEPS)
    for q in range(len(SEQS)):
        for f0 in range(ns):
            fn = "h%d_%d" % (q, f0)
            n1 = (ns - 1) if len(SEQS[q]) > 2 else 0
            n2 = ((ns - 1) if tier == "thorough" else 2) if len(SEQS[q]) > 3 else 0
            nl = 5 if tier == "thorough" else 0
            L = ["def %s(s1: int, s2: int, lead: int, trail: int) -> bool:" % fn, '    """', "    post: _", '    """',
                 "    return sep_ok(%d, %d, _sk.box(s1, 0, %d), _sk.box(s2, 0, %d), _sk.box(lead, -1, %d), _sk.box(trail, -1, %d))" % (q, f0, n1, n2, nl, nl)]
            obs.append(Ob(fn, "\n".join(L), sample="forms %r: first boundary %r, other boundaries every separator from %r (+ leading/trailing)" % ([FORMS[i] for i in SEQS[q]], SEPS[f0], SEPS),
                          group="separators"))
    L = ["def hconcat(a: int, b: int, k: int) -> bool:", '    """', "    post: _", '    """', "    return concat_ok(_sk.box(a, 0, %d), _sk.box(b, 0, %d), _sk.box(k, 0, 4))" % (len(SEQS) - 1, len(SEQS) - 1)]
    obs.append(Ob("hconcat", "\n".join(L), sample="read(t1 + t2) == read(t1) + read(t2) for all pairs of form sequences and split points", group="concatenation"))
    L = ["def hsugar(si: int, i1: int, i2: int) -> bool:", '    """', "    post: _", '    """', "    return sugar_ok(_sk.box(si, 0, %d), _sk.box(i1, 0, %d), _sk.box(i2, 0, %d))" % (len(SUGAR) - 1, len(INNER) - 1, len(INNER) - 1)]
    obs.append(Ob("hsugar", "\n".join(L), sample="sugar %r vs long forms over inner forms %r" % ([s[0] for s in SUGAR], INNER), group="sugar"))
    L = ["def hsugarsep(si: int, i1: int, sp: int) -> bool:", '    """', "    post: _", '    """',
         "    return sugar_ok(_sk.box(si, 0, %d), _sk.box(i1, 0, %d), 0, None, _sk.box(sp, 0, %d))" % (len(SUGAR) - 1, len(INNER) - 1, ns - 1)]
    obs.append(Ob("hsugarsep", "\n".join(L), sample="sugar mark, then any separator of %r, then the operand(s), vs the long form" % (SEPS,), group="sugar"))
    tw = "\n".join(["def twin0(s0: int) -> bool:", '    """', "    post: _", '    """', "    sep_ok(0, _sk.box(s0, 0, 3), 0, 0, -1, -1)", "    return False"])
    obs.append(Ob("twin0", tw, twin=True, group="twin"))
    return {
        "preamble": PREAMBLE,
        "obligations": obs,
        "level": "model_checking",
        "timeout": 1800.0,
        "path_timeout": 60.0,
        "batch": 4,
        "grade": "R/D",
        "functions_encoded": ["hy.reader.reader.Reader.slurp_space / isnormalizedspace", "HyReader handlers for ; and #_ and the sugar prefixes ' ` ~ ~@ #* #** #^"],
        "bounds": "%d form sequences over %d form kinds %r; each boundary separator from %r (%d choices; third boundary restricted in quick), optional leading/trailing separator; concatenation law "
                  "for every pair of sequences and split; sugar vs long form for %d prefixes x %d inner forms, also with every separator between the mark and its operand(s)" % (len(SEQS), len(FORMS), FORMS, SEPS, ns, len(SUGAR), len(INNER)),
        "outside": "other separators (non-ASCII whitespace), longer sequences",
        "stubs": ["reader call executed under crosshair.tracers.NoTracing"],
        "assumptions": ["model equality is type-aware and structural (vf/readerlib.py:meq); positions are not compared"],
    }


MANIFEST = {
    "engine": "A",
    "level": "model_checking",
    "technique": "CrossHair/z3 enumerating separator choices (folded selectors) at every boundary: real reader on the decorated text vs the same forms with single spaces",
    "text": "For each form sequence every combination of separators (ASCII whitespace, comments, #_ discards) at the boundaries must leave the model list unchanged; whole-form texts concatenate; "
            "sugar reads as the long form.",
    "note": "Grade R/D.",
}
