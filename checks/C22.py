"""C22: numeric literals read like Python plus the documented extensions (grade R/D: bounded string box, real reader vs
CPython's own parsers + a reference acceptor written from docs/syntax.rst)."""
import re

from vf import strsym
from vf.xh import Ob

PREAMBLE = '''\
import sys
from vf import skel as _sk
from checks.C22 import num_ok, ALPH
'''

ALPH = "0179_,.eEjJ+-xobaNIn"

_DEC = re.compile(r"[+-]?[0-9]+$")
_RADIX = re.compile(r"[+-]?0([xX][0-9a-fA-F]+|[oO][0-7]+|[bB][01]+)$")
_FLOAT = re.compile(r"[+-]?([0-9]+\.[0-9]*|\.[0-9]+|[0-9]+)([eE][+-]?[0-9]+)?$")
_IMAG = re.compile(r"[+-]?([0-9]+\.[0-9]*|\.[0-9]+|[0-9]+)([eE][+-]?[0-9]+)?[jJ]$")
_CPLX = re.compile(r"[+-]?([0-9]+\.[0-9]*|\.[0-9]+|[0-9]+)([eE][+-]?[0-9]+)?[+-]([0-9]+\.[0-9]*|\.[0-9]+|[0-9]+)([eE][+-]?[0-9]+)?[jJ]$")


def reference(s):
    """-> ("int"|"float"|"complex", value) | ("not-number",) | ("unjudged",)   (from docs/syntax.rst 'Numeric literals')"""
    if s in ("NaN",):
        return ("float", float("nan"))
    if s == "Inf":
        return ("float", float("inf"))
    if s == "-Inf":
        return ("float", float("-inf"))
    if re.search(r"NaN|Inf", s) and re.search(r"[_,]", s):
        # "trailing separators" + "NaN/Inf literals": the docs do not say whether the two rules combine
        return ("unjudged",)
    if re.fullmatch(r"[+-]?(nan|inf|infinity)", s, re.I) or re.search(r"(nan|inf)", s, re.I):
        # other spellings/capitalisations: "case-sensitive"; signs other than -Inf are not documented
        if s in ("+Inf", "+NaN", "-NaN") or re.search(r"[0-9]", s):
            return ("unjudged",)
        if s[-1:] in ("j", "J"):
            # "complex literals as understood by the constructor for complex" + case-sensitive NaN/Inf: NaNj, -Infj, NaN+Infj
            if re.search(r"infinity", s, re.I):
                return ("unjudged",)
            if all(m.group(0) in ("NaN", "Inf") for m in re.finditer(r"nan|inf", s, re.I)):
                try:
                    return ("complex", complex(s))
                except ValueError:
                    return ("not-number",)
            return ("not-number",)
        return ("not-number",)
    body = s[1:] if s[:1] in "+-" else s
    if not s.isascii():
        return ("unjudged",)   # non-ASCII digits: accepted by int()/float(), not covered by the docs
    if s.replace("_", "").replace(",", "") in ("+j", "-j", "+J", "-J"):
        return ("unjudged",)   # understood by complex(), but bare j is documented as a symbol
    if not body or not (body[0].isdigit() and body[0].isascii() or (body[0] == "." and len(body) > 1 and body[1].isdigit())):
        # separators (or anything else) before the first digit: not a number
        if body[:1] == "." and len(body) > 1 and body[1] in "_,":
            return ("unjudged",)
        return ("not-number",)
    t = s[0] + s[1:].replace("_", "").replace(",", "")
    if not t.isascii():
        return ("unjudged",)
    if _DEC.match(t):
        return ("int", int(t, 10))
    if _RADIX.match(t):
        return ("int", int(t, 0))
    if _FLOAT.match(t):
        return ("float", float(t))
    if _IMAG.match(t):
        return ("complex", complex(t))
    if _CPLX.match(t):
        return ("complex", complex(t))
    # "complex literals as understood by the constructor for complex": e.g. 1+j
    if re.fullmatch(r"[0-9.eE+\-jJ]+", t) and t[-1] in "jJ" and re.search(r"[0-9]", t):
        try:
            return ("complex", complex(t))
        except ValueError:
            pass
    return ("not-number",)


def python_literal(s):
    """Is s a single Python numeric literal token?  -> value or None"""
    import ast

    try:
        node = ast.parse(s, mode="eval").body
    except (SyntaxError, ValueError):
        return None
    if isinstance(node, ast.Constant) and type(node.value) in (int, float, complex) and not isinstance(node.value, bool):
        return node.value
    return None


def _num_ok(s):
    import math

    import hy
    from hy.reader.exceptions import LexException, PrematureEndOfInput

    try:
        ms = list(hy.read_many(s))
    except (LexException, PrematureEndOfInput) as e:
        ms = e
    except Exception as e:
        return "reader raised %s" % type(e).__name__

    def kind(m):
        if type(m) is hy.models.Integer:
            return ("int", int(m))
        if type(m) is hy.models.Float:
            return ("float", float(m))
        if type(m) is hy.models.Complex:
            return ("complex", complex(m))
        return ("other", m)

    def same(a, b):
        if a[0] != b[0]:
            return False
        if a[0] == "float" and math.isnan(a[1]) and math.isnan(b[1]):
            return True
        if a[0] == "complex" and (a[1] != a[1] or b[1] != b[1]):
            return repr(a[1]) == repr(b[1])   # a nan part: compare the printed parts
        return a[1] == b[1] and repr(a[1]) == repr(b[1])

    pv = python_literal(s)
    if pv is not None:
        want = ({int: "int", float: "float", complex: "complex"}[type(pv)], pv)
        if not (isinstance(ms, list) and len(ms) == 1 and same(kind(ms[0]), want)):
            return "Python literal %r = %r, Hy reads %r" % (s, pv, ms)
        return None
    ref = reference(s)
    if ref[0] == "unjudged":
        return None
    if ref[0] == "not-number":
        if isinstance(ms, list) and any(kind(m)[0] != "other" for m in ms) and len(ms) == 1:
            return "%r is not a number by the documented rules, Hy reads %r" % (s, ms)
        return None
    if not (isinstance(ms, list) and len(ms) == 1 and same(kind(ms[0]), ref)):
        return "%r should read as %s %r (documented extension), Hy reads %r" % (s, ref[0], ref[1], ms)
    return None


def num_ok(s, why=None):
    from vf import skel

    if why is None and skel.EXPLAIN[0]:
        del skel.LAST_WHY[:]
        why = skel.LAST_WHY
    if not s or any(c in s for c in " \t\n()[]{}\"';#`~"):
        return True
    r = strsym.untraced(_num_ok, s)
    if r is not None and why is not None:
        why.append(r)
    return r is None


def finding_key(ob, rec):
    return "%s" % (rec.get("replay_detail"),)


def spec(tier, seed):
    maxlen = 3 if tier == "quick" else 4
    obs = strsym.string_box_obs("h", "num_ok({s})", "ALPH", ALPH, maxlen, "box",
                                "numeric-looking strings starting with {first}, length <= {n} over {alph!r}")
    # longer, structured candidates: digits with separators in every documented position
    cands = ["10_000", "10,000", "1__0", "1_", "1,", "1._5", "1.,5", "1e_5", "1e5_", "1j_", "0_x10", "0x_ff", "0xF_F", "007", "-007", "+007", "0_7", "00,7", "-0_1", "1E2", "0XFF", "5J",
             "5+4j", "5-4j", "5.5+4.5j", "1e2+3e4j", "-5+4j", "5+j", "5+4", "NaN", "nan", "NAN", "Inf", "inf", "-Inf", "-inf", "INF", "_1", ",1", "-_1", "1a", "0o8", "0b2", "0xg", "1e", "1e+",
             ".5", "5.", "-.5", ".", "..", "1.2.3", "1..2", "0x1.8", "١٢", "²", "1_000j", "1,000.5e1,0", "0e0", "00.5", "-0", "+0", "0_0", "1__2,,3"]
    L = ["CANDS = %r" % cands, "def hcand(i: int) -> bool:", '    """', "    post: _", '    """', "    k = _sk.box(i, 0, %d)" % (len(cands) - 1),
         "    return num_ok(CANDS[k])"]
    obs.append(Ob("hcand", "\n".join(L), sample="hand-written candidates %r" % cands, group="candidates"))
    tw = "\n".join(["def twin0(i0: int) -> bool:", '    """', "    post: _", '    """', "    num_ok('1' + _sk.pick_str(ALPH, [i0]))", "    return False"])
    obs.append(Ob("twin0", tw, twin=True, group="twin"))
    return {
        "preamble": PREAMBLE,
        "obligations": obs,
        "level": "model_checking",
        "timeout": 1200.0,
        "path_timeout": 60.0,
        "batch": 1,
        "grade": "R/D: every path is one concrete string (selector integers folded into the alphabet); the reader call itself runs untraced because nothing symbolic enters it",
        "functions_encoded": ["hy.read_many -> HyReader.read_default -> as_identifier -> hy.models.Integer/Float/Complex (strip_digit_separators, check_inf_nan_cap)"],
        "bounds": "every string of length 1..%d over %r (%d characters) plus %d hand-written candidates with separators in every documented position" % (maxlen, ALPH, len(ALPH), len(cands)),
        "outside": "longer literals; digits other than 0,1,7,9; the full float value space (float() is C code)",
        "stubs": ["reader call executed under crosshair.tracers.NoTracing"],
        "assumptions": ["oracle 1: a string that CPython parses as one numeric literal must read as the model of that type and value; oracle 2: reference acceptor checks/C22.py:reference written from "
                        "docs/syntax.rst (separators after the first digit, leading zeros, NaN/Inf/-Inf case-sensitive, complex() syntax); spellings the docs do not mention (+Inf, -NaN) are not judged"],
    }


MANIFEST = {
    "engine": "A",
    "level": "model_checking",
    "technique": "CrossHair/z3 enumerating a bounded string box through folded selectors: real reader vs CPython literal parser and a docs-derived reference acceptor",
    "text": "Every string in the box is read by the real reader; where CPython parses it as a numeric literal the model type and value must match; otherwise the documented extension rules "
            "(reference acceptor) decide whether it must be a number (and which) or a symbol/dotted form.",
    "note": "Grade R/D: exhaustive only inside the alphabet x length box. Trusted: CPython literal parsing, the reference acceptor.",
}
