"""Reference semantics for Hy's core forms, written from docs/api.rst,
docs/semantics.rst and the pyops docstrings -- not from the compiler.

Programs are s-expressions in Python tuples (see vf/skel.py):
  str            symbol           int/bool/None   literal
  ("str", s)     string literal   (":", name)     keyword
  ("[", ...)     list display     ("#(", ...)     tuple display
  ("{", ...)     dict display     ("#{", ...)     set display
  (head, ...)    form / call

No ast, no statement/expression split, no temporaries.  Python constructs that
Hy documents as "same as Python" (try, with, iteration, argument binding,
operators) are implemented with the Python construct itself.

`let` is removed first by an independent alpha-renamer (unlet), which is the
documented meaning: "creates local variables with lexically scoped names" that
"continue to exist in the surrounding Python scope".

The effect log is a tree: a list of ints (events, in order = documented order)
and ("par", [sub, sub, ...]) nodes for the children of one call / display /
operator, whose relative order docs/semantics.rst leaves unspecified.
"""
import operator as _op
import types as _types

# ----------------------------------------------------------------- utilities


class RefError(Exception):
    """The oracle cannot interpret this program (generator bug, not a finding)."""


class _Return(BaseException):
    def __init__(self, v):
        self.v = v


class _Break(BaseException):
    pass


class _Continue(BaseException):
    pass


def is_sym(x):
    return isinstance(x, str)


def is_form(x, head=None):
    return isinstance(x, tuple) and len(x) > 0 and (head is None or x[0] == head)


DISPLAYS = ("[", "#(", "{", "#{")

# --------------------------------------------------------------- let removal


class _Namer:
    def __init__(self):
        self.n = 0

    def fresh(self, name):
        self.n += 1
        return "%s__let%d" % (name, self.n)


def _params_names(params):
    """Names bound by a lambda list ('[' ...)."""
    out = []
    for p in params[1:]:
        if is_sym(p):
            if p not in ("/", "*"):
                out.append(p)
        elif is_form(p, "["):  # [name default]
            out.append(p[1])
        elif is_form(p, "unpack-iterable") or is_form(p, "unpack-mapping"):
            out.append(p[1])
    return out


def unlet(x, ren=None, namer=None):
    """Eliminate `let` by renaming let-bound names to fresh ones."""
    ren = ren or {}
    namer = namer or _Namer()

    def r(y, ren=ren):
        return unlet(y, ren, namer)

    if is_sym(x):
        if "." in x and not x.startswith(".") and x.strip(".") != "":
            h, _, t = x.partition(".")
            return ren.get(h, h) + "." + t
        return ren.get(x, x)
    if not isinstance(x, tuple) or not x:
        return x
    h = x[0]
    if h in ("str", ":"):
        return x
    if h == "quote":
        return x
    if h == "let":
        binds = x[1]
        new = dict(ren)
        out = []
        i = 1
        while i < len(binds):
            name, val = binds[i], binds[i + 1]
            v = unlet(val, new, namer)
            new = dict(new)
            tgt = _rename_target_fresh(name, new, namer)
            out.append(("setv", tgt, v))
            i += 2
        body = tuple(unlet(b, new, namer) for b in x[2:])
        return ("do",) + tuple(out) + body
    if h in ("fn", "defn"):
        k = 1
        name = None
        if h == "defn":
            name = x[1]  # defn assigns in Python scope (hoisted), not let scope
            k = 2
        params = x[k]
        new = dict(ren)
        newparams = ["["]
        # defaults are evaluated in the outer scope
        for p in params[1:]:
            if is_form(p, "["):
                newparams.append(("[", p[1], r(p[2])))
            else:
                newparams.append(p)
        for n in _params_names(params):
            new.pop(n, None)
        # (global n) "always refers to module-level variables": inside this function n is
        # the module's n, not an enclosing let's
        for b in x[k + 1:]:
            if is_form(b, "global"):
                for n in b[1:]:
                    new.pop(n, None)
        body = tuple(unlet(b, new, namer) for b in x[k + 1:])
        head = (h,) if name is None else (h, name)
        return head + (tuple(newparams),) + body
    if h in ("lfor", "sfor", "dfor", "gfor"):
        # iteration and :setv variables get the form's own scope: they shadow
        # let names without touching them
        new = dict(ren)
        out = [h]
        args = list(x[1:])
        nfinal = 2 if h == "dfor" and not is_form(args[-1], "unpack-mapping") else 1
        clauses, final = args[:-nfinal] if nfinal else args, args[-nfinal:]
        i = 0
        while i < len(clauses):
            c = clauses[i]
            if c == (":", "if") or c == (":", "do"):
                out += [c, unlet(clauses[i + 1], new, namer)]
                i += 2
            elif c == (":", "setv"):
                tgt, val = clauses[i + 1], clauses[i + 2]
                v = unlet(val, new, namer)
                new = dict(new)
                for n in _target_names(tgt):
                    new.pop(n, None)
                out += [c, tgt, v]
                i += 3
            else:
                tgt, it = clauses[i], clauses[i + 1]
                v = unlet(it, new, namer)
                new = dict(new)
                for n in _target_names(tgt):
                    new.pop(n, None)
                out += [tgt, v]
                i += 2
        out += [unlet(f, new, namer) for f in final]
        return tuple(out)
    if h == "global":
        return x
    if h == "nonlocal":
        return (h,) + tuple(ren.get(n, n) for n in x[1:])
    if h == "except":
        # (except [var Type] body...) : var is let-like (bound only inside)
        spec = x[1]
        if is_form(spec, "[") and len(spec) == 3:
            new = dict(ren)
            v = namer.fresh(spec[1])
            new[spec[1]] = v
            return ("except", ("[", v, r(spec[2]))) + tuple(unlet(b, new, namer) for b in x[2:])
        return ("except", r(spec)) + tuple(r(b) for b in x[2:])
    if h == ".":
        # (. obj attr ...) : attrs are not variables
        return (".", r(x[1])) + tuple(a if is_sym(a) else r(a) for a in x[2:])
    return tuple([h if is_sym(h) and _is_special(h) else r(h)] + [r(a) for a in x[1:]])


def _target_names(t):
    if is_sym(t):
        return [t]
    if isinstance(t, tuple):
        out = []
        for e in t[1:]:
            out += _target_names(e)
        return out
    return []


def _rename_target_fresh(t, ren, namer):
    if is_sym(t):
        f = namer.fresh(t)
        ren[t] = f
        return f
    if isinstance(t, tuple):
        return (t[0],) + tuple(_rename_target_fresh(e, ren, namer) for e in t[1:])
    raise RefError("bad let target %r" % (t,))


SPECIAL = {
    "do", "if", "cond", "when", "and", "or", "not", "setv", "setx", "let", "fn", "defn",
    "while", "for", "lfor", "sfor", "dfor", "gfor", "with", "try", "raise", "return",
    "break", "continue", "get", "cut", "global", "nonlocal", "quote", "except", "else",
    "finally", "unpack-iterable", "unpack-mapping", "assert", "del", ".", "defclass",
    "eval-when-compile", "eval-and-compile", "do-mac", "py", "match", "yield", "await",
    "+", "-", "*", "/", "//", "%", "**", "<<", ">>", "&", "|", "^", "bnot", "@",
    "=", "!=", "<", "<=", ">", ">=", "is", "is-not", "in", "not-in",
    "+=", "-=", "*=", "/=", "//=", "%=", "**=", "<<=", ">>=", "&=", "|=", "^=", "@=",
    "[", "#(", "{", "#{", "str", ":", "chainc", "import", "lambda*",
}


def _is_special(h):
    return h in SPECIAL


# ------------------------------------------------------------------- frames


class Frame:
    """kind: module | function | class | comp"""

    def __init__(self, kind, parent=None, locals_=None, globals_decl=(), nonlocal_decl=()):
        self.kind = kind
        self.parent = parent
        self.vars = {}
        self.locals = set(locals_ or ())
        self.globals_decl = set(globals_decl)
        self.nonlocal_decl = set(nonlocal_decl)

    def module(self):
        f = self
        while f.parent is not None:
            f = f.parent
        return f


_BUILTINS = __builtins__ if isinstance(__builtins__, dict) else __builtins__.__dict__


def _python_frame(fr):
    """Nearest enclosing frame that owns plain assignments (not comp)."""
    while fr.kind == "comp":
        fr = fr.parent
    return fr


def lookup(name, fr, from_nested=False):
    f = fr
    first = True
    while f is not None:
        if f.kind == "module":
            if name in f.vars:
                return f.vars[name]
            if name in _BUILTINS:
                return _BUILTINS[name]
            raise NameError("name %r is not defined" % name)
        if f.kind == "class" and not first:
            # class scopes are invisible to nested functions
            f = f.parent
            continue
        if f.kind == "comp":
            if name in f.vars:
                return f.vars[name]
            f = f.parent
            continue  # comp frames are transparent (first stays as is)
        if name in f.globals_decl:
            return lookup(name, f.module())
        if f.kind == "class":
            if name in f.vars:
                return f.vars[name]
        elif name in f.locals and name not in f.nonlocal_decl:
            if name in f.vars:
                return f.vars[name]
            if first:
                raise UnboundLocalError(name)
            raise NameError("free variable %r referenced before assignment" % name)
        first = False
        f = f.parent
    raise NameError(name)


def _owner_for_assign(name, fr):
    f = fr
    if f.kind == "comp":
        if name in f.locals:
            return f
        return _owner_for_assign(name, f.parent)
    if f.kind == "module":
        return f
    if name in f.globals_decl:
        return f.module()
    if name in f.nonlocal_decl:
        g = f.parent
        while g is not None:
            if g.kind == "function" and name in g.locals and name not in g.nonlocal_decl and name not in g.globals_decl:
                return g
            g = g.parent
        # docs (nonlocal): "... or a module-level variable, for which it compiles to global"
        return f.module()
    return f


def assign(name, val, fr):
    _owner_for_assign(name, fr).vars[name] = val


# ---------------------------------------------------- static pre-pass (locals)


def assigned_names(body, acc=None, gl=None, nl=None):
    """Python's rule: names assigned anywhere in a function body (not in nested
    functions/classes/comprehension scopes) are local."""
    acc = set() if acc is None else acc
    gl = set() if gl is None else gl
    nl = set() if nl is None else nl

    def walk(x):
        if not isinstance(x, tuple) or not x:
            return
        h = x[0]
        if h == "do-mac":
            # the quoted form returned by the body is the code that runs here
            if is_form(x[-1], "quote"):
                walk(x[-1][1])
            return
        if h in ("str", ":", "quote"):
            return
        if h in ("setv",):
            i = 1
            while i + 1 < len(x):
                acc.update(_target_names_assign(x[i]))
                walk_target(x[i])
                walk(x[i + 1])
                i += 2
            return
        if h == "setx":
            acc.update(_target_names_assign(x[1]))
            walk(x[2])
            return
        if h in ("+=", "-=", "*=", "/=", "//=", "%=", "**=", "<<=", ">>=", "&=", "|=", "^=", "@="):
            acc.update(_target_names_assign(x[1]))
            for a in x[2:]:
                walk(a)
            return
        if h == "fn":
            for p in x[1][1:]:
                if is_form(p, "["):
                    walk(p[2])
            return
        if h == "defn":
            acc.add(x[1])
            for p in x[2][1:]:
                if is_form(p, "["):
                    walk(p[2])
            return
        if h == "defclass":
            acc.add(x[1])
            return
        if h == "for":
            cl = x[1]
            i = 1
            while i < len(cl):
                c = cl[i]
                if c in ((":", "if"), (":", "do")):
                    walk(cl[i + 1])
                    i += 2
                elif c == (":", "setv"):
                    acc.update(_target_names(cl[i + 1]))
                    walk(cl[i + 2])
                    i += 3
                else:
                    acc.update(_target_names(c))
                    walk(cl[i + 1])
                    i += 2
            for b in x[2:]:
                walk(b)
            return
        if h in ("lfor", "sfor", "dfor", "gfor"):
            # iteration / :setv names live in the comp scope; other assignments leak
            args = list(x[1:])
            i = 0
            while i < len(args):
                c = args[i]
                if c in ((":", "if"), (":", "do")) and i + 1 < len(args):
                    walk(args[i + 1])
                    i += 2
                elif c == (":", "setv") and i + 2 < len(args):
                    walk(args[i + 2])
                    i += 3
                elif i + 1 < len(args) - 0 and not _is_final(h, args, i):
                    walk(args[i + 1])
                    i += 2
                else:
                    walk(args[i])
                    i += 1
            return
        if h == "with":
            m = x[1]
            if len(m) == 2:
                walk(m[1])
            else:
                i = 1
                while i + 1 < len(m):
                    if m[i] != "_":
                        acc.update(_target_names(m[i]))
                    walk(m[i + 1])
                    i += 2
            for b in x[2:]:
                walk(b)
            return
        if h == "except":
            spec = x[1]
            if is_form(spec, "[") and len(spec) == 3:
                acc.add(spec[1])
                walk(spec[2])
            else:
                walk(spec)
            for b in x[2:]:
                walk(b)
            return
        if h == "global":
            gl.update(x[1:])
            return
        if h == "nonlocal":
            nl.update(x[1:])
            return
        if h == "import":
            for a in x[1:]:
                if is_sym(a):
                    acc.add(a.split(".")[0])
            return
        for a in x[1:] if (is_sym(h) and _is_special(h)) else x:
            walk(a)

    def walk_target(t):
        # subscript / attribute targets evaluate subforms
        if isinstance(t, tuple) and t and t[0] in ("get", "."):
            for a in t[1:]:
                walk(a)

    for b in body:
        walk(b)
    return acc, gl, nl


def _is_final(h, args, i):
    nfinal = 2 if h == "dfor" and not is_form(args[-1], "unpack-mapping") else 1
    return i >= len(args) - nfinal


def _target_names_assign(t):
    if is_sym(t):
        return [t] if "." not in t else []
    if isinstance(t, tuple) and t and t[0] in ("[", "#("):
        out = []
        for e in t[1:]:
            out += _target_names_assign(e)
        return out
    if is_form(t, "unpack-iterable"):
        return _target_names_assign(t[1])
    if is_form(t, "annotate"):
        return _target_names_assign(t[1])
    return []  # (get o k), (. o a): no name bound


# ------------------------------------------------------------------ the world


class World:
    def __init__(self):
        self.log = []  # tree: ints and ("par", [sub,...])
        self.cur = self.log
        self.stack = []
        # set when an exception propagates while siblings of an unordered group
        # may or may not have run (order-dependent outcome): the log check is relaxed
        self.relaxed = False

    def event(self, site):
        self.cur.append(site)

    def push(self, sub):
        self.stack.append(self.cur)
        self.cur = sub

    def pop(self):
        self.cur = self.stack.pop()


class Closure:
    pass


# ------------------------------------------------------------------ evaluator

_BINOPS = {
    "+": _op.add, "-": _op.sub, "*": _op.mul, "/": _op.truediv, "//": _op.floordiv,
    "%": _op.mod, "**": _op.pow, "<<": _op.lshift, ">>": _op.rshift, "&": _op.and_,
    "|": _op.or_, "^": _op.xor, "@": _op.matmul,
}
_CMPOPS = {
    "=": _op.eq, "!=": _op.ne, "<": _op.lt, "<=": _op.le, ">": _op.gt, ">=": _op.ge,
    "is": _op.is_, "is-not": _op.is_not,
    "in": lambda a, b: a in b, "not-in": lambda a, b: a not in b,
}
_AUG = {k + "=": v for k, v in _BINOPS.items()}


class Interp:
    def __init__(self, world, module_vars):
        self.w = world
        self.mod = Frame("module")
        self.mod.vars = module_vars  # shared dict: the oracle's "module namespace"
        # A native generator expression evaluates its leftmost iterable at creation;
        # a generator *function* (Hy's strategy when a gfor contains statements)
        # evaluates it at the first next().  The docs only say gfor is lazy, so both
        # are accepted: the comparison is tried with either setting.
        self.gfor_lazy_first = False

    # -- helpers
    def par(self, children, fr, evalfn=None):
        """Evaluate children whose relative order is unspecified."""
        subs = []
        vals = []
        node = ("par", subs)
        self.w.cur.append(node)
        for c in children:
            sub = []
            subs.append(sub)
            self.w.push(sub)
            try:
                vals.append((evalfn or self.ev)(c, fr))
            except Exception:
                if len(children) > 1:
                    self.w.relaxed = True
                raise
            finally:
                self.w.pop()
        return vals

    def op_guard(self, n_operands):
        """Context for an operation whose Python expansion would raise before
        later operands are evaluated (left folds, chained subscripts)."""
        return _OpGuard(self.w, n_operands)

    def body(self, forms, fr):
        v = None
        for f in forms:
            v = self.ev(f, fr)
        return v

    def run(self, prog):
        return self.ev(unlet(prog), self.mod)

    # -- main dispatch
    def ev(self, x, fr):
        if is_sym(x):
            return self.sym(x, fr)
        if not isinstance(x, tuple):
            return x  # literal
        if not x:
            raise RefError("empty expression")
        h = x[0]
        if is_sym(h):
            m = getattr(self, "f_" + _MANGLE.get(h, h.replace("-", "_")), None) if _is_special(h) else None
            if m is not None:
                return m(x, fr)
            if h in _BINOPS or h in _CMPOPS or h in _AUG:
                return self.operator(x, fr)
        return self.call(x, fr)

    def sym(self, x, fr):
        if x == "None":
            return None
        if x == "True":
            return True
        if x == "False":
            return False
        if "." in x and not x.startswith("."):
            parts = x.split(".")
            v = lookup(parts[0], fr)
            for p in parts[1:]:
                v = getattr(v, p)
            return v
        return lookup(x, fr)

    # -- calls and displays
    def call_args(self, args, fr):
        """Evaluate call arguments -> (positional list, kwargs dict); children are 'par'."""
        items = []  # (kind, form)
        i = 0
        while i < len(args):
            a = args[i]
            if is_form(a, ":") and len(a) == 2:
                if i + 1 >= len(args):
                    raise RefError("keyword without value")
                items.append(("kw:" + a[1], args[i + 1]))
                i += 2
            elif is_form(a, "unpack-iterable"):
                items.append(("*", a[1]))
                i += 1
            elif is_form(a, "unpack-mapping"):
                items.append(("**", a[1]))
                i += 1
            else:
                items.append(("pos", a))
                i += 1
        return items

    def call(self, x, fr):
        h = x[0]
        items = self.call_args(x[1:], fr)
        if is_sym(h) and h.startswith(".") and len(h) > 1 and not h.startswith(".."):
            # method call (.m obj args)
            vals = self.par([it[1] for it in items], fr)
            obj = vals[0]
            f = obj
            for p in h[1:].split("."):
                f = getattr(f, p)
            items = items[1:]
            vals = vals[1:]
        else:
            vals = self.par([h] + [it[1] for it in items], fr)
            f, vals = vals[0], vals[1:]
        pos = []
        kw = {}
        # unpacking can raise before Python would have evaluated later arguments
        with self.op_guard(3 if len(items) > 1 else 0):
            for (kind, _), v in zip(items, vals):
                if kind == "pos":
                    pos.append(v)
                elif kind == "*":
                    pos.extend(v)
                elif kind == "**":
                    for k2 in v.keys():
                        if k2 in kw:
                            raise TypeError("got multiple values for keyword argument %r" % k2)
                        kw[k2] = v[k2]
                else:
                    name = kind[3:].replace("-", "_")
                    if name in kw:
                        raise TypeError("got multiple values for keyword argument %r" % name)
                    kw[name] = v
        return f(*pos, **kw)

    def display_items(self, x, fr):
        forms = []
        kinds = []
        for a in x[1:]:
            if is_form(a, "unpack-iterable"):
                forms.append(a[1])
                kinds.append("*")
            elif is_form(a, "unpack-mapping"):
                forms.append(a[1])
                kinds.append("**")
            else:
                forms.append(a)
                kinds.append("1")
        vals = self.par(forms, fr)
        return kinds, vals

    def f_lbracket(self, x, fr):
        kinds, vals = self.display_items(x, fr)
        out = []
        with self.op_guard(3 if len(vals) > 1 else 0):
            for k, v in zip(kinds, vals):
                if k == "*":
                    out.extend(v)
                elif k == "**":
                    raise RefError("#** in list display has no Python construct")
                else:
                    out.append(v)
        return out

    def f_tuple(self, x, fr):
        return tuple(self.f_lbracket(x, fr))

    def f_set(self, x, fr):
        return set(self.f_lbracket(x, fr))

    def f_dict(self, x, fr):
        kinds, vals = self.display_items(x, fr)
        out = {}
        i = 0
        with self.op_guard(3 if len(vals) > 1 else 0):
            while i < len(vals):
                if kinds[i] == "**":
                    out.update(vals[i])
                    i += 1
                elif kinds[i] == "*":
                    raise RefError("#* in dict display")
                else:
                    out[vals[i]] = vals[i + 1]
                    i += 2
        return out

    # -- simple control
    def f_do(self, x, fr):
        return self.body(x[1:], fr)

    def f_if(self, x, fr):
        if len(x) != 4:
            raise RefError("if needs 3 args")
        return self.ev(x[2], fr) if self.ev(x[1], fr) else self.ev(x[3], fr)

    def f_cond(self, x, fr):
        i = 1
        while i + 1 < len(x):
            if self.ev(x[i], fr):
                return self.ev(x[i + 1], fr)
            i += 2
        return None

    def f_when(self, x, fr):
        if self.ev(x[1], fr):
            return self.body(x[2:], fr)
        return None

    def f_unless(self, x, fr):
        if not self.ev(x[1], fr):
            return self.body(x[2:], fr)
        return None

    def f_and(self, x, fr):
        v = True
        for a in x[1:]:
            v = self.ev(a, fr)
            if not v:
                return v
        return v

    def f_or(self, x, fr):
        v = None
        for a in x[1:]:
            v = self.ev(a, fr)
            if v:
                return v
        return v

    def f_not(self, x, fr):
        (v,) = self.par(x[1:], fr)
        return not v

    def f_quote(self, x, fr):
        raise RefError("quote not supported in refsem")

    # -- assignment
    def bind(self, target, val, fr):
        if is_sym(target):
            if "." in target:
                parts = target.split(".")
                o = lookup(parts[0], fr)
                for p in parts[1:-1]:
                    o = getattr(o, p)
                setattr(o, parts[-1], val)
            else:
                assign(target, val, fr)
        elif is_form(target, "[") or is_form(target, "#("):
            elems = target[1:]
            star = [i for i, e in enumerate(elems) if is_form(e, "unpack-iterable")]
            vals = list(val)
            if star:
                s = star[0]
                after = len(elems) - s - 1
                if len(vals) < len(elems) - 1:
                    raise ValueError("not enough values to unpack")
                for e, v in zip(elems[:s], vals[:s]):
                    self.bind(e, v, fr)
                self.bind(elems[s][1], vals[s:len(vals) - after], fr)
                for e, v in zip(elems[s + 1:], vals[len(vals) - after:]):
                    self.bind(e, v, fr)
            else:
                if len(vals) != len(elems):
                    raise ValueError("unpack mismatch")
                for e, v in zip(elems, vals):
                    self.bind(e, v, fr)
        elif is_form(target, "get"):
            vals = self.par(target[1:], fr)
            o = vals[0]
            for k in vals[1:-1]:
                o = o[k]
            o[vals[-1]] = val
        else:
            raise RefError("bad target %r" % (target,))

    def f_setv(self, x, fr):
        if len(x) % 2 != 1:
            raise RefError("setv needs pairs")
        i = 1
        while i < len(x):
            v = self.ev(x[i + 1], fr)
            self.bind(x[i], v, fr)
            i += 2
        return None

    def f_setx(self, x, fr):
        v = self.ev(x[2], fr)
        self.bind(x[1], v, fr)
        return v

    def f_global(self, x, fr):
        return None

    def f_nonlocal(self, x, fr):
        return None

    # -- functions
    def make_fn(self, params, body, fr, name="<lambda>"):
        interp = self
        # defaults evaluated now, in order
        spec = []  # (kind, name, has_default, default)
        mode = "normal"
        posonly_idx = None
        plist = list(params[1:])
        if "/" in plist:
            posonly_idx = plist.index("/")
        seen_star = False
        for i, p in enumerate(plist):
            if p == "/":
                continue
            if p == "*":
                seen_star = True
                continue
            if is_form(p, "unpack-iterable"):
                spec.append(("var", p[1], False, None))
                seen_star = True
                continue
            if is_form(p, "unpack-mapping"):
                spec.append(("varkw", p[1], False, None))
                continue
            kind = "kwonly" if seen_star else ("posonly" if posonly_idx is not None and i < posonly_idx else "normal")
            if is_form(p, "["):
                spec.append((kind, p[1], True, self.ev(p[2], fr)))
            else:
                spec.append((kind, p, False, None))
        # build a real Python function with that signature to get Python's binding
        pieces = []
        dflt = {}
        last_kind = None
        names = []
        for kind, n, hd, d in spec:
            names.append(n)
            if kind == "normal" and last_kind == "posonly":
                pieces.append("/")
            if kind == "kwonly" and last_kind in ("posonly", "normal", None) and not any(
                    k == "var" for k, *_ in spec):
                if last_kind == "posonly":
                    pieces.append("/")
                pieces.append("*")
            if kind in ("var",) and last_kind == "posonly":
                pieces.append("/")
            if kind == "var":
                pieces.append("*" + n)
            elif kind == "varkw":
                if last_kind == "posonly":
                    pieces.append("/")
                pieces.append("**" + n)
            else:
                if hd:
                    dflt["_d_" + n] = d
                    pieces.append("%s=_d_%s" % (n, n))
                else:
                    pieces.append(n)
            last_kind = kind
        if last_kind == "posonly":
            pieces.append("/")
        src = "def _binder(%s):\n    return {%s}\n" % (
            ", ".join(pieces), ", ".join("%r: %s" % (n, n) for n in names))
        ns = {}  # dict literal + item assignment (CrossHair: see DESIGN appendix B)
        for dk in dflt:
            ns[dk] = dflt[dk]
        _types.FunctionType(compile(src, "<binder>", "exec"), ns)()
        binder = ns["_binder"]
        acc, gl, nl = assigned_names(body)
        locals_ = (set(names) | acc) - gl - nl

        def f(*a, **kw):
            bound = binder(*a, **kw)
            nf = Frame("function", fr, locals_, gl, nl)
            nf.vars.update(bound)
            try:
                return interp.body(body, nf)
            except _Return as r:
                return r.v

        f.__name__ = name
        f._refsem_binder = binder
        return f

    def f_fn(self, x, fr):
        return self.make_fn(x[1], x[2:], fr)

    def f_defn(self, x, fr):
        body = x[3:]
        doc = None
        if len(body) > 1 and is_form(body[0], "str"):
            doc = body[0][1]
            body = body[1:]
        f = self.make_fn(x[2], body, fr, name=x[1])
        f.__doc__ = doc
        assign(x[1], f, fr)
        return None

    def f_return(self, x, fr):
        raise _Return(self.ev(x[1], fr) if len(x) > 1 else None)

    def f_raise(self, x, fr):
        if len(x) == 1:
            raise RefError("bare raise unsupported")
        raise self.ev(x[1], fr)

    def f_break(self, x, fr):
        raise _Break()

    def f_continue(self, x, fr):
        raise _Continue()

    # -- loops
    def f_while(self, x, fr):
        body = x[2:]
        els = None
        if body and is_form(body[-1], "else"):
            els = body[-1][1:]
            body = body[:-1]
        while self.ev(x[1], fr):
            try:
                self.body(body, fr)
            except _Break:
                break
            except _Continue:
                continue
        else:
            if els is not None:
                self.body(els, fr)
        return None

    def _clauses(self, cl):
        out = []
        i = 0
        while i < len(cl):
            c = cl[i]
            if c == (":", "if"):
                out.append(("if", cl[i + 1]))
                i += 2
            elif c == (":", "do"):
                out.append(("do", cl[i + 1]))
                i += 2
            elif c == (":", "setv"):
                out.append(("setv", cl[i + 1], cl[i + 2]))
                i += 3
            else:
                out.append(("iter", c, cl[i + 1]))
                i += 2
        return out

    def f_for(self, x, fr):
        cl = self._clauses(list(x[1][1:]))
        body = x[2:]
        els = None
        if body and is_form(body[-1], "else"):
            els = body[-1][1:]
            body = body[:-1]

        # "for compiles to one or more for statements": break/continue apply to the
        # innermost iteration clause before them; else belongs to the outermost loop
        # and is skipped only when *that* loop is jumped out of.
        iters = [j for j, c in enumerate(cl) if c[0] == "iter"]
        outer = iters[0] if iters else None
        broke_outer = [False]

        def rec(i):
            if i == len(cl):
                self.body(body, fr)
                return
            c = cl[i]
            if c[0] == "if":
                if self.ev(c[1], fr):
                    rec(i + 1)
            elif c[0] == "do":
                self.ev(c[1], fr)
                rec(i + 1)
            elif c[0] == "setv":
                self.bind(c[1], self.ev(c[2], fr), fr)
                rec(i + 1)
            else:
                for v in self.ev(c[2], fr):
                    self.bind(c[1], v, fr)
                    try:
                        rec(i + 1)
                    except _Continue:
                        continue
                    except _Break:
                        if i == outer:
                            broke_outer[0] = True
                        break

        if outer is None:
            # no iteration clause at all: break/continue have no loop to apply to
            rec(0)
        else:
            rec(0)
        if els is not None and not broke_outer[0]:
            self.body(els, fr)
        return None

    def _comp(self, x, fr, emit):
        h = x[0]
        args = list(x[1:])
        nfinal = 2 if h == "dfor" and not is_form(args[-1], "unpack-mapping") else 1
        cl = self._clauses(args[:-nfinal])
        final = args[-nfinal:]
        names = set()
        for c in cl:
            if c[0] in ("iter", "setv"):
                names.update(_target_names(c[1]))
        cf = Frame("comp", fr, names)
        # Python: the leftmost iterable of a comprehension / generator expression is
        # evaluated immediately, in the enclosing scope (this is what makes gfor
        # "lazy except for its first iterable")
        first = [None]
        lazy_first = h == "gfor" and self.gfor_lazy_first is True
        if cl and cl[0][0] == "iter" and not lazy_first:
            first[0] = self.ev(cl[0][2], fr)
            if not (h == "gfor" and self.gfor_lazy_first == "expr"):
                # (mode "expr": the expression is evaluated at creation, but a value that is not iterable is only
                # noticed at the first next(), as when the value is handed to a generator function as an argument)
                first[0] = iter(first[0])

        def rec(i):
            if i == len(cl):
                yield from emit(final, cf)
                return
            c = cl[i]
            if c[0] == "if":
                if self.ev(c[1], cf):
                    yield from rec(i + 1)
            elif c[0] == "do":
                self.ev(c[1], cf)
                yield from rec(i + 1)
            elif c[0] == "setv":
                self.bind(c[1], self.ev(c[2], cf), cf)
                yield from rec(i + 1)
            else:
                # the first iterable is evaluated in the enclosing scope
                for v in (first[0] if (i == 0 and not lazy_first) else self.ev(c[2], cf if i else fr)):
                    self.bind(c[1], v, cf)
                    try:
                        yield from rec(i + 1)
                    except _Continue:
                        continue
                    except _Break:
                        break

        return rec(0)

    def _emit1(self, final, cf):
        f = final[0]
        if is_form(f, "unpack-iterable"):
            yield from self.ev(f[1], cf)
        else:
            yield self.ev(f, cf)

    def f_lfor(self, x, fr):
        return list(self._comp(x, fr, self._emit1))

    def f_sfor(self, x, fr):
        return set(self._comp(x, fr, self._emit1))

    def f_gfor(self, x, fr):
        return self._comp(x, fr, self._emit1)

    def f_dfor(self, x, fr):
        def emit(final, cf):
            if len(final) == 1:
                d = self.ev(final[0][1], cf)
                for k in d:
                    yield (k, d[k])
            else:
                k, v = self.par(final, cf)
                yield (k, v)

        return dict(self._comp(x, fr, emit))

    # -- with / try
    def f_with(self, x, fr):
        m = x[1]
        if len(m) == 2:
            pairs = [("_", m[1])]
        else:
            pairs = []
            i = 1
            while i < len(m):
                pairs.append((m[i], m[i + 1]))
                i += 2
        body = x[2:]
        # "with returns the value of its last form, unless it suppresses an exception
        # ..., in which case it returns None": the value is the body's value when the
        # body ran to completion, None when an exception cut it short and a manager
        # suppressed it.  One case is left open by that sentence: the body completes,
        # an inner manager's __exit__ then raises, and an outer manager suppresses
        # *that* exception.  Both None ("it suppressed an exception") and the body's
        # value ("the value of its last form") are accepted there (envobj.Either).
        from vf.envobj import Either

        res = [None]
        st = {"done": False, "exit_exc": False}

        def rec(i):
            if i == len(pairs):
                res[0] = self.body(body, fr)
                st["done"] = True
                return
            var, mf = pairs[i]
            try:
                with self.ev(mf, fr) as got:
                    if var != "_":
                        self.bind(var, got, fr)
                    rec(i + 1)
            except Exception:
                if st["done"]:
                    st["exit_exc"] = True
                raise

        rec(0)
        if st["exit_exc"] and res[0] is not None:
            return Either(None, res[0])
        return res[0]

    def f_try(self, x, fr):
        parts = list(x[1:])
        body, handlers, els, fin = [], [], None, None
        for p in parts:
            if is_form(p, "except"):
                handlers.append(p)
            elif is_form(p, "else"):
                els = p[1:]
            elif is_form(p, "finally"):
                fin = p[1:]
            else:
                body.append(p)
        try:
            try:
                v = self.body(body, fr)
            except Exception as e:
                for hd in handlers:
                    spec = hd[1]
                    var = None
                    types = None
                    if len(spec) == 1:
                        types = Exception
                    elif len(spec) == 2:
                        types = self._exc_types(spec[1], fr)
                    else:
                        var = spec[1]
                        types = self._exc_types(spec[2], fr)
                    if isinstance(e, types):
                        if var is not None:
                            assign(var, e, fr)
                            try:
                                return self.body(hd[2:], fr)
                            finally:
                                # Python unbinds the except variable when the handler ends
                                _owner_for_assign(var, fr).vars.pop(var, None)
                        return self.body(hd[2:], fr)
                raise
            else:
                if els is not None:
                    v = self.body(els, fr)
                return v
        finally:
            if fin is not None:
                self.body(fin, fr)

    def _exc_types(self, t, fr):
        if is_form(t, "["):
            return tuple(self.ev(e, fr) for e in t[1:])
        return self.ev(t, fr)

    # -- subscripts
    def f_get(self, x, fr):
        # (get o k1 k2 ...) is o[k1][k2]...: each subscript happens before the next
        # key is evaluated
        vals = self.par(x[1:], fr)
        o = vals[0]
        with self.op_guard(len(vals)):
            for k in vals[1:]:
                o = o[k]
        return o

    def f_cut(self, x, fr):
        vals = self.par(x[1:], fr)
        o = vals[0]
        if len(vals) == 1:
            return o[:]
        if len(vals) == 2:
            return o[:vals[1]]
        return o[slice(*vals[1:])]

    def f_dot(self, x, fr):
        o = self.ev(x[1], fr)
        for a in x[2:]:
            if is_sym(a):
                o = getattr(o, a.replace("-", "_"))
            elif is_form(a, "["):
                o = o[self.ev(a[1], fr)]
            else:
                raise RefError("bad . form")
        return o

    def f_defclass(self, x, fr):
        """(defclass Name [bases...] body...): the body runs in a class scope that
        nested functions do not see; the class is bound in the enclosing Python scope."""
        name = x[1]
        bases = tuple(self.par(x[2][1:], fr)) if len(x) > 2 else ()
        body = x[3:]
        doc = None
        if body and is_form(body[0], "str"):
            doc = body[0][1]
            body = body[1:]
        acc, gl, nl = assigned_names(body)
        cf = Frame("class", fr, acc - gl - nl, gl, nl)
        self.body(body, cf)
        ns = {}
        for k in cf.vars:
            ns[k] = cf.vars[k]
        if doc is not None:
            ns["__doc__"] = doc
        cls = type(name, bases, ns)
        assign(name, cls, fr)
        return None

    def f_assert(self, x, fr):
        if not self.ev(x[1], fr):
            if len(x) > 2:
                raise AssertionError(self.ev(x[2], fr))
            raise AssertionError()
        return None

    def f_str(self, x, fr):
        return x[1]

    def f_kw(self, x, fr):
        import hy

        return hy.models.Keyword(x[1])

    # -- staging forms (C16): run-time meaning only
    def f_eval_when_compile(self, x, fr):
        return None

    def f_eval_and_compile(self, x, fr):
        return self.body(x[1:], fr)

    def f_do_mac(self, x, fr):
        """Run-time meaning of (do-mac body... 'FORM): the code FORM ("compiles the
        resulting value as code"); the body itself ran at compile time."""
        last = x[-1]
        if is_form(last, "quote"):
            return self.ev(last[1], fr)
        if not isinstance(last, tuple) or last[0] in ("str", "[", "#(", "-", "*", "+"):
            # a literal or constant arithmetic: its compile-time value, compiled as code, is that constant again
            return self.ev(last, fr)
        raise RefError("do-mac body must end in a quoted form in skeletons")

    # -- operators (documented expansions)
    def operator(self, x, fr):
        h = x[0]
        if h in _AUG:
            # (op= target a b ...) : target op= (aggregate of extras)
            if len(x) < 3:
                raise RefError("augmented assignment needs >= 2 args")
            extras = self.par(x[2:], fr)
            base = h[:-1]
            if len(extras) == 1:
                rhs = extras[0]
            else:
                agg = {"-": "+", "/": "*", "//": "*", "%": None, "**": None, "<<": "+", ">>": "+"}.get(base, base)
                if base in ("-", "/"):
                    agg = "+" if base == "-" else "*"
                rhs = self.fold(agg, extras)
            cur = self.ev(x[1], fr) if is_sym(x[1]) else self.ev(x[1], fr)
            self.bind(x[1], _AUG[h](cur, rhs), fr)
            return None
        if any(is_form(a, "unpack-iterable") for a in x[1:]):
            raise RefError("operator with #* : pyops fallback, use printer oracle")
        if h in _CMPOPS:
            # documented expansion: Python's chained comparison a1 < a2 < ... < an,
            # which stops evaluating operands once a link is false
            args = x[1:]
            if len(args) == 0:
                raise RefError("comparison needs args")
            if len(args) == 1:
                if h == "!=":
                    raise RefError("!= needs 2")
                self.par(args, fr)
                return True
            vals = self.par(args[:2], fr)
            left, right = vals
            r = _CMPOPS[h](left, right)
            for a in args[2:]:
                if not r:
                    return r
                left = right
                right = self.ev(a, fr)
                r = _CMPOPS[h](left, right)
            return r
        vals = self.par(x[1:], fr)
        with self.op_guard(len(vals)):
            return self.fold(h, vals)

    def fold(self, h, vals):
        n = len(vals)
        if n == 0:
            if h == "+":
                return 0
            if h == "*":
                return 1
            if h == "|":
                return 0
            if h == "&":
                raise RefError("& needs args")
            raise RefError("%s needs args" % h)
        if n == 1:
            v = vals[0]
            if h == "+":
                return +v
            if h == "-":
                return -v
            if h == "/":
                return 1 / v
            if h in ("*", "|", "&"):
                return v
            raise RefError("%s needs 2 args" % h)
        if h == "**":
            r = vals[-1]
            for v in reversed(vals[:-1]):
                r = v ** r
            return r
        f = _BINOPS[h]
        r = vals[0]
        for v in vals[1:]:
            r = f(r, v)
        return r

    def f_bnot(self, x, fr):
        (v,) = self.par(x[1:], fr)
        return ~v


class _Suppressed(BaseException):
    pass


class _OpGuard:
    def __init__(self, w, n):
        self.w, self.n = w, n

    def __enter__(self):
        return self

    def __exit__(self, et, ev, tb):
        if et is not None and self.n > 2 and issubclass(et, Exception):
            self.w.relaxed = True
        return False


_MANGLE = {"[": "lbracket", "#(": "tuple", "{": "dict", "#{": "set", ".": "dot", ":": "kw",
           "eval-when-compile": "eval_when_compile", "eval-and-compile": "eval_and_compile"}


# --------------------------------------------------------- log-tree matching


def _size(item):
    if isinstance(item, int):
        return 1
    return sum(_size(i) for sub in item[1] for i in sub)


def _sites(items, acc=None):
    acc = set() if acc is None else acc
    for it in items:
        if isinstance(it, int):
            acc.add(it)
        else:
            for sub in it[1]:
                _sites(sub, acc)
    return acc


def flatten(items):
    out = []
    for it in items:
        if isinstance(it, int):
            out.append(it)
        else:
            for sub in it[1]:
                out.extend(flatten(sub))
    return out


def log_matches(log, items):
    """Is the flat `log` a linear extension of the partial order `items`?"""
    pos = 0
    for it in items:
        n = _size(it)
        seg = log[pos:pos + n]
        if len(seg) != n:
            return False
        if isinstance(it, int):
            if seg[0] != it:
                return False
        else:
            subs = it[1]
            sets = [_sites(s) for s in subs]
            disjoint = True
            seen = set()
            for s in sets:
                if seen & s:
                    disjoint = False
                seen |= s
            if not disjoint:
                # cannot project: require some order of whole children
                if not _match_any_order(seg, subs):
                    return False
            else:
                for e in seg:
                    if e not in seen:
                        return False
                for s, st in zip(subs, sets):
                    if not log_matches([e for e in seg if e in st], s):
                        return False
        pos += n
    return pos == len(log)


def _match_any_order(seg, subs):
    import itertools

    subs = [s for s in subs if _size(("par", [s])) > 0]
    if len(subs) > 6:
        return log_matches(seg, [e for s in subs for e in s])
    for perm in itertools.permutations(subs):
        if log_matches(seg, [e for s in perm for e in s]):
            return True
    return False


def log_matches_relaxed(log, items):
    """Order-dependent outcome (an exception cut an unordered group short): the
    flat log must be a linear extension of some down-closed part of `items`."""
    pos = 0
    for it in items:
        if pos == len(log):
            return True
        if isinstance(it, int):
            if log[pos] != it:
                return False
            pos += 1
        else:
            subs = it[1]
            sets = [_sites(s) for s in subs]
            allsites = set()
            for st in sets:
                allsites |= st
            n = _size(it)
            seg = []
            while pos + len(seg) < len(log) and len(seg) < n and log[pos + len(seg)] in allsites:
                seg.append(log[pos + len(seg)])
            for s, st in zip(subs, sets):
                if not log_matches_relaxed([e for e in seg if e in st], s):
                    return False
            pos += len(seg)
            if len(seg) < n:
                return pos == len(log)
    return pos == len(log)
