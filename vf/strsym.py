"""Helpers for the string-grade (R/D) checks: bounded string boxes enumerated through folded selector integers,
with the (fully concrete) call of the code under test executed outside CrossHair's tracer."""
from vf.xh import Ob


def untraced(f, *a):
    """Run f(*a) with tracing suspended (everything passed in is concrete: see skel.pick_str)."""
    try:
        from crosshair.tracers import NoTracing, is_tracing

        if is_tracing():
            with NoTracing():
                return f(*a)
    except ImportError:
        pass
    return f(*a)


def string_box_obs(prefix, call_tpl, alph_name, alph, maxlen, group, sample_tpl, fixed_first=True, extra_params=()):
    """Obligations enumerating every string of length <= maxlen over alph (first character fixed per obligation
    when fixed_first, so that the box is spread over the worker processes).
    call_tpl: python expression with {s} for the string expression."""
    obs = []
    firsts = list(range(len(alph))) if fixed_first else [None]
    for fi in firsts:
        nsel = maxlen - 1 if fixed_first else maxlen
        sel = ["i%d" % k for k in range(nsel)]
        params = ["%s: int" % x for x in sel] + list(extra_params)
        if not params:
            params = ["dummy: int"]
        sexpr = "_sk.pick_str(%s, [%s])" % (alph_name, ", ".join(sel))
        if fixed_first:
            sexpr = "%s[%d] + %s" % (alph_name, fi, sexpr)
        fn = "%s%s" % (prefix, "" if fi is None else fi)
        L = ["def %s(%s) -> bool:" % (fn, ", ".join(params)), '    """', "    post: _", '    """', "    return " + call_tpl.format(s=sexpr)]
        obs.append(Ob(fn, "\n".join(L), sample=sample_tpl.format(first=repr(alph[fi]) if fi is not None else "any", alph=alph, n=maxlen), group=group))
    return obs
