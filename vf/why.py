"""python -m vf.why '<hy text / skeleton repr>' name=value ...   : native diagnosis of an Engine-B disagreement"""
import json, sys
from vf import skel

def main():
    rec = json.load(open(sys.argv[1]))
    ns = {}
    src = rec["preamble"] + "\n" + rec["src"]
    exec(compile(src, "<replay>", "exec"), ns)
    name = rec["name"]
    P, S = ns["P_" + name], ns["S_" + name]
    import inspect
    sig = inspect.signature(ns[name])
    ba = sig.bind(*rec["cex"]["args"], **rec["cex"]["kwargs"])
    vals = []
    kw = {}
    for k, v in ba.arguments.items():
        if k.startswith("t"): vals.append(("v" + k[1:], ("V", int(k[1:]), v)))
        elif k.startswith("xs"): vals.append((k, ("L", v)))
        elif k.startswith("x"): vals.append((k, ("N", v)))
        else: kw[k] = v
    why = []
    print(rec["sample"])
    if P[0] == "ok":
        import ast
        print(ast.unparse(P[3])); print("EXPR:", ast.unparse(P[4]))
    print(skel.agree(P, S, vals, why=why, **kw), why)

main()
