"""Bounded-exhaustive skeleton generation for Engine B.

A template is a skeleton with holes H(idx, leafkind, group): leafkind says what
type of value the slot wants (v: value object, x: int, xs: list of int, cm:
context manager, ex: exception instance); group is None for slots with a
documented order w.r.t. the other slots ("seq") or a label shared by slots whose
relative order is unspecified ("par": children of one call/display/operator).

A filler is one *kind of compiler Result* (DESIGN section 2): plain name,
effectful expression, statements+user name, statements+temporary, ... .
"""
import itertools


class Ctx:
    def __init__(self):
        self.site = 0
        self.v = 0
        self.x = 0
        self.xs = 0
        self.q = 0

    def sites(self, n=1):
        s = self.site
        self.site += n
        return s

    def leaf(self, kind):
        if kind == "v":
            self.v += 1
            return "v%d" % (self.v - 1)
        if kind == "x":
            self.x += 1
            return "x%d" % (self.x - 1)
        if kind == "xs":
            self.xs += 1
            return "xs%d" % (self.xs - 1)
        if kind == "cm":
            return ("CM", self.sites(2))
        if kind == "ex":
            return ("E1",)
        raise ValueError(kind)

    def qname(self):
        self.q += 1
        return "q%d" % (self.q - 1)


FILLERS = ["pv", "pe", "sx", "st", "sw", "sn", "sf", "sr"]
VALUE_FILLERS = ["pv", "pe", "sx", "st", "sw"]
# control transfer out of a comprehension body is not a documented construct
NOSR = ("pv", "pe", "sx", "st", "sw", "sn", "sf")


def H(idx, kind="v", group=None, loop=False, only=None):
    return ("__H__", idx, kind, group, loop, only)


def is_hole(x):
    return isinstance(x, tuple) and len(x) == 6 and x[0] == "__H__"


def groups_conflict(g1, g2):
    """Two holes are order-unrelated when one's unordered group encloses the other's."""
    if g1 is None or g2 is None:
        return False
    return g1 == g2 or g1.startswith(g2 + "/") or g2.startswith(g1 + "/")


def fill(kind, leafkind, c, in_fn=False, in_loop=False):
    """-> skeleton for one filler kind (fresh sites/vars from c), or None when
    the filler does not apply in this context."""
    if kind == "pv":
        lf = c.leaf(leafkind)
        return lf
    if kind == "pe":
        s = c.sites()
        return ("E", s, c.leaf(leafkind))
    if kind == "sx":
        q = c.qname()
        s = c.sites()
        return ("do", ("setv", q, ("E", s, c.leaf(leafkind))), q)
    if kind == "st":
        # statements + compiler temporary with temp_variables (Result.rename path)
        q = c.qname()
        s = c.sites(2)
        cond = c.leaf("v")
        return ("if", ("E", s, cond), ("do", ("setv", q, ("E", s + 1, c.leaf(leafkind))), q), c.leaf(leafkind))
    if kind == "sw":
        # statements + temporary without temp_variables
        s = c.sites(2)
        return ("try", ("E", s, c.leaf(leafkind)), ("finally", ("E", s + 1)))
    if kind == "sn":
        q = c.qname()
        s = c.sites()
        return ("setv", q, ("E", s, c.leaf(leafkind)))
    if kind == "sf":
        q = c.qname()
        s = c.sites()
        return ("call", ("fn", ("[",), ("setv", q, 1), ("E", s, c.leaf(leafkind))))
    if kind == "sr":
        if in_loop:
            return ("break",)
        if in_fn:
            return ("return", c.leaf(leafkind))
        return ("raise", ("E1",))
    raise ValueError(kind)


# ------------------------------------------------------------------ templates
# name, template, needs_fn (contains return), comment

def templates():
    T = []

    def t(name, sk):
        T.append((name, sk))

    t("do1", ("do", H(0)))
    t("do2", ("do", H(0), H(1)))
    t("do3", ("do", H(0), H(1), H(2)))
    t("if", ("if", H(0), H(1), H(2)))
    t("cond", ("cond", H(0), H(1), H(2), H(3)))
    t("cond-else", ("cond", H(0), H(1), True, H(2)))
    t("when", ("when", H(0), H(1), H(2)))
    t("and", ("and", H(0), H(1), H(2)))
    t("or", ("or", H(0), H(1), H(2)))
    t("not", ("not", H(0, "v", "p")))
    t("setv", ("setv", "a", H(0), "b", H(1)))
    t("setv-val", ("do", ("setv", "a", H(0)), ("#(", "a", "a")))
    t("setx", ("setx", "a", H(0)))
    t("setx-in-call", ("F", ("setx", "a", H(0, "v", "p")), H(1, "v", "p")))
    t("let", ("let", ("[", "a", H(0), "b", H(1)), H(2), ("#(", "a", "b")))
    t("let-empty-body", ("let", ("[", "a", H(0))))
    t("fn-call", ("call", ("fn", ("[", "p"), H(0), ("#(", "p", H(1, "v", "p"))), H(2)))
    t("fn-default", ("call", ("fn", ("[", "p", ("[", "d", H(0, "v", "p"))), ("#(", "p", "d")), H(1, "v", "p")))
    t("defn", ("do", ("defn", "g", ("[", "p"), H(0), H(1)), ("g", H(2))))
    t("call2", ("F", H(0, "v", "p"), H(1, "v", "p")))
    t("call3", ("F", H(0, "v", "p"), H(1, "v", "p"), H(2, "v", "p")))
    t("call-kw", ("F", H(0, "v", "p"), (":", "k"), H(1, "v", "p")))
    t("call-star", ("F", ("unpack-iterable", ("[", H(0, "v", "p"), H(1, "v", "p"))), H(2, "v", "p")))
    t("call-dstar", ("F", H(0, "v", "p"), ("unpack-mapping", ("{", ("str", "k"), H(1, "v", "p")))))
    t("call-head", ("call", ("do", H(0, "v", "p"), "F"), H(1, "v", "p")))
    t("method", (".append", ("[", H(0, "v", "p")), H(1, "v", "p")))
    t("list", ("[", H(0, "v", "p"), H(1, "v", "p"), H(2, "v", "p")))
    t("tuple", ("#(", H(0, "v", "p"), H(1, "v", "p")))
    t("dict", ("{", ("str", "a"), H(0, "v", "p"), ("str", "b"), H(1, "v", "p")))
    t("list-star", ("[", ("unpack-iterable", H(0, "xs", "p")), H(1, "v", "p")))
    t("add", ("+", H(0, "x", "p"), H(1, "x", "p"), H(2, "x", "p")))
    t("sub", ("-", H(0, "x", "p"), H(1, "x", "p")))
    t("neg", ("-", H(0, "x", "p")))
    t("mul-add", ("*", H(0, "x", "p"), ("+", H(1, "x", "p/q"), 1)))
    t("lt", ("<", H(0, "x", "p"), H(1, "x", "p")))
    t("lt3", ("<", H(0, "x", "p"), H(1, "x", "p"), "x9"))
    t("eq", ("=", H(0, "x", "p"), H(1, "x", "p")))
    t("eq1", ("=", H(0, "x", "p")))
    t("lt1", ("<", H(0, "x", "p")))
    # the assignment target is read inside the value form: it must still hold its old value there
    t("setv-or-selfref", ("do", ("setv", "a", "v9"), ("setv", "a", ("or", H(0), ("do", ("setv", "q9", 1), ("F", "a")))), "a"))
    t("setv-if-selfref", ("do", ("setv", "a", "v9"), ("setv", "a", ("if", H(0), ("do", ("setv", "q9", 1), ("F", "a")), ("F", "a", 2))), "a"))
    t("setv-try-selfref", ("do", ("setv", "a", "v9"), ("setv", "a", ("try", H(0), ("F", "a"), ("except", ("[", "E1"), ("F", "a", 3)))), "a"))
    t("in", ("in", H(0, "x", "p"), H(1, "xs", "p")))
    t("augadd", ("do", ("setv", "a", 1), ("+=", "a", H(0, "x"))))
    t("get", ("get", H(0, "xs", "p"), H(1, "x", "p")))
    t("get2", ("get", ("[", "xs0", "xs0"), H(0, "x", "p"), H(1, "x", "p")))
    t("cut", ("cut", H(0, "xs", "p"), H(1, "x", "p"), H(2, "x", "p")))
    t("cut1", ("cut", H(0, "xs", "p"), H(1, "x", "p")))
    # literal bounds, zero included (a literal 0 is a falsy model: it is still a bound)
    t("cut-lit0", ("cut", H(0, "xs", "p"), 1, 0))
    t("cut-lit0-step", ("cut", H(0, "xs", "p"), 2, 0, -1))
    t("cut-lit0-only", ("cut", H(0, "xs", "p"), 0))
    t("cut-lit-none", ("cut", H(0, "xs", "p"), None, 0, None))
    t("setv-get", ("do", ("setv", "d", ("[", 0, 0)), ("setv", ("get", "d", H(0, "x", "p", False, ("pv", "pe"))), H(1)), "d"))
    t("while", ("while", H(0), H(1, "v", None, True), ("break",)))
    t("while-else", ("do", ("setv", "n", 0),
                     ("while", ("<", "n", 2), ("setv", "n", ("+", "n", 1)), H(0, "v", None, True), ("else", H(1)))))
    t("while-cond-else", ("while", H(0), ("break",), ("else", H(1))))
    # the condition's value is a mutable object that the body empties: the condition
    # (with its statements) must still be re-evaluated for the final failing test
    t("while-mutable", ("do", ("setv", "wl", ("[", 1, 2)),
                        ("while", ("do", ("setv", "wq", ("E", 90, "wl")), "wq"), H(0, "v", None, True), (".pop", "wl")),
                        "wl"))
    t("while-mutable-plain", ("do", ("setv", "wl", ("[", 1, 2)),
                              ("while", ("E", 90, "wl"), H(0, "v", None, True), (".pop", "wl")), "wl"))
    # iteration variables have names no other template binds (an inner form that
    # re-binds a comprehension's own iteration variable is not a documented case)
    t("for", ("for", ("[", "fa", H(0, "xs"))), )
    t("for-body", ("for", ("[", "fa", H(0, "xs")), H(1, "v", None, True), ("E", 90, "fa")))
    t("for-else", ("for", ("[", "fa", "xs0"), ("if", ("=", "fa", "x0"), ("break",), H(0, "v", None, True)), ("else", H(1))))
    t("for-2", ("for", ("[", "fa", H(0, "xs"), "fb", H(1, "xs")), ("E", 90, ("+", "fa", "fb"))))
    t("lfor", ("lfor", "la", H(0, "xs", None, False, NOSR), ("#(", "la", H(1, "v", None, False, NOSR))))
    t("lfor-if", ("lfor", "la", "xs0", (":", "if"), H(0, "v", None, False, NOSR), ("E", 90, "la")))
    t("lfor-setv", ("lfor", "la", "xs0", (":", "setv", ), "lb", H(0, "v", None, False, NOSR), ("#(", "la", "lb")))
    t("lfor-do", ("lfor", "la", "xs0", (":", "do"), H(0, "v", None, False, NOSR), "la"))
    t("sfor", ("sfor", "sa", H(0, "xs", None, False, NOSR), ("do", H(1, "v", None, False, NOSR), "sa")))
    t("dfor", ("dfor", "da", H(0, "xs", None, False, NOSR), "da", H(1, "v", None, False, NOSR)))
    t("gfor", ("gfor", "ga", H(0, "xs", None, False, NOSR), ("#(", "ga", H(1, "v", None, False, NOSR))))
    t("with", ("with", ("[", "c", H(0, "cm"))), )
    t("with-body", ("with", ("[", "c", H(0, "cm")), H(1), H(2)))
    t("with-anon", ("with", ("[", H(0, "cm")), H(1)))
    t("with-2", ("with", ("[", "c", H(0, "cm"), "d", H(1, "cm")), H(2)))
    t("try", ("try", H(0), ("except", ("[", "E1"), H(1)), ("else", H(2)), ("finally", H(3))))
    t("try-named", ("try", H(0), ("raise", ("E1",)), ("except", ("[", "e", "E1"), H(1))))
    t("try-fin", ("try", H(0), H(1), ("finally", H(2))))
    t("raise", ("try", ("raise", H(0, "ex")), ("except", ("[", "e", "E1"), H(1))))
    t("return", ("call", ("fn", ("[",), H(0), ("return", H(1)), H(2))))
    t("return-if", ("call", ("fn", ("[",), ("if", H(0), ("return", H(1)), H(2)), H(3))))
    t("assert", ("assert", H(0), H(1)))
    return T


def holes(sk, acc=None):
    acc = [] if acc is None else acc
    if is_hole(sk):
        acc.append(sk)
    elif isinstance(sk, tuple):
        for a in sk:
            holes(a, acc)
    return acc


def _has_head(sk, h):
    return isinstance(sk, tuple) and any(
        (isinstance(a, tuple) and ((a and a[0] == h) or _has_head(a, h))) for a in sk)


def instantiate(tpl, assignment, c=None, in_fn=False):
    """assignment: idx -> filler kind.  Returns skeleton or None if a filler is
    not applicable."""
    c = c or Ctx()
    c.site = max(c.site, 0)
    ok = [True]

    def rec(x):
        if is_hole(x):
            _, idx, lk, group, loop, only = x
            f = fill(assignment[idx], lk, c, in_fn=in_fn, in_loop=loop) if (only is None or assignment[idx] in only) else None
            if f is None:
                ok[0] = False
            return f
        if isinstance(x, tuple):
            return tuple(rec(a) for a in x)
        return x

    # reserve fixed sites (>= 90) used by templates
    out = rec(tpl)
    return out if ok[0] else None


def depth1(fillers=FILLERS, tpls=None, in_fn=False):
    """Each template x each slot x each filler (other slots: effectful
    expression, or plain name when they share an unordered group with a
    control-transfer filler).  Plus all-slots-same-filler."""
    out = []
    for name, tpl in (tpls or templates()):
        hs = holes(tpl)
        seen = set()
        for h in hs:
            for f in fillers:
                asg = {}
                for h2 in hs:
                    if h2[1] == h[1]:
                        asg[h2[1]] = f
                    elif f == "sr" and groups_conflict(h2[3], h[3]):
                        asg[h2[1]] = "pv"
                    else:
                        asg[h2[1]] = "pe"
                key = tuple(sorted(asg.items()))
                if key in seen:
                    continue
                seen.add(key)
                sk = instantiate(tpl, asg, in_fn=in_fn)
                if sk is not None:
                    out.append(("%s[%s]" % (name, ",".join(asg[i] for i in sorted(asg))), sk))
        for f in fillers:
            if f == "sr":
                continue
            asg = {h[1]: f for h in hs}
            key = tuple(sorted(asg.items()))
            if key in seen:
                continue
            seen.add(key)
            sk = instantiate(tpl, asg, in_fn=in_fn)
            if sk is not None:
                out.append(("%s[%s]" % (name, ",".join(asg[i] for i in sorted(asg))), sk))
    return out


def _written(tpl, acc=None):
    """Fixed variable names that a template assigns (setv / setx / loop and comprehension targets / except variables)."""
    acc = set() if acc is None else acc
    if isinstance(tpl, tuple) and tpl and not is_hole(tpl):
        h = tpl[0]
        if h in ("setv", "setx") and len(tpl) > 1:
            for t in tpl[1::2] if h == "setv" else tpl[1:2]:
                if isinstance(t, str):
                    acc.add(t)
        if h in ("lfor", "sfor", "dfor", "gfor") and len(tpl) > 1 and isinstance(tpl[1], str):
            acc.add(tpl[1])
        for a in tpl:
            _written(a, acc)
    return acc


def depth2(outer_fillers=("pe", "sx", "st", "sw", "sn"), inner_tpls=None, outer_tpls=None, stride=1, offset=0):
    """Template over (template over fillers): every slot of every outer
    template receives every inner template instantiated with one statement
    filler in one slot."""
    out = []
    inner = []
    for name, tpl in (inner_tpls or templates()):
        hs = holes(tpl)
        for h in hs:
            for f in outer_fillers:
                asg = {h2[1]: ("pe" if h2[1] != h[1] else f) for h2 in hs}
                inner.append(("%s[%s]" % (name, ",".join(asg[i] for i in sorted(asg))), tpl, asg))
    n = 0
    # name-binding constructs inside a comprehension body: which of them "leak" is
    # documented only for setv/setx (see DESIGN, C04 notes); not generated
    binders = ("defn", "for", "for-body", "for-else", "for-2", "with", "with-body", "with-2")
    for oname, otpl in (outer_tpls or templates()):
        ohs = holes(otpl)
        is_comp = oname.split("-")[0] in ("lfor", "sfor", "dfor", "gfor")
        for oh in ohs:
            if oh[2] != "v":
                continue
            for iname, itpl, iasg in inner:
                if is_comp and iname.split("[")[0] in binders:
                    continue
                if _written(itpl) & _written(otpl):
                    # both templates assign the same fixed name (a template nested in itself, ...): when the two
                    # assignments sit in sibling operands, one of them statement-producing, the value read afterwards
                    # depends on the documented-as-unspecified order of hoisted statements and sibling expressions
                    continue
                n += 1
                if (n + offset) % stride:
                    continue
                c = Ctx()

                def rec(x):
                    if is_hole(x):
                        if x[1] == oh[1]:
                            return instantiate(itpl, iasg, c)
                        return fill("pe" , x[2], c, in_loop=x[4])
                    if isinstance(x, tuple):
                        return tuple(rec(a) for a in x)
                    return x

                sk = rec(otpl)
                out.append(("%s@%d<-%s" % (oname, oh[1], iname), sk))
    return out
