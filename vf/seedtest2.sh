#!/bin/sh
# vf/seedtest2.sh <patch.diff> <demo.py|-> <check-id>...  : like seedtest.sh, but in a scratch worktree of /repo (so /repo stays
# untouched and other checks can run meanwhile); evidence and replays of these runs go to a scratch directory. Maintenance only.
PATCH="$1"; DEMO="$2"; shift 2
W=/tmp/vf-seedrepo-$$; O=/tmp/vf-seedout-$$
git -C /repo worktree add --detach "$W" HEAD >/dev/null 2>&1 || exit 2
trap 'git -C /repo worktree remove --force "$W" >/dev/null 2>&1; rm -rf "$O"' EXIT
cd "$W" || exit 2
if [ "$DEMO" != "-" ]; then PYTHONPATH="$W" /venv/bin/python -P "$DEMO" >/dev/null 2>&1; echo "demo on clean tree: exit $?"; fi
git apply "$PATCH" 2>/dev/null || patch -p1 -s --fuzz=3 < "$PATCH" || { echo "PATCH DOES NOT APPLY"; exit 2; }
if [ "$DEMO" != "-" ]; then PYTHONPATH="$W" /venv/bin/python -P "$DEMO" >/dev/null 2>&1; echo "demo on patched tree: exit $?"; fi
cd /verif
for c in "$@"; do
  PYTHONPATH="$W" VF_OUT="$O" ./check $c --tier quick > /tmp/seed2-$c-$$.out 2>&1; rc=$?
  echo "check $c: exit $rc; $(grep -c '^VIOLATION' /tmp/seed2-$c-$$.out) VIOLATION lines; $(grep -v Warning /tmp/seed2-$c-$$.out | tail -1 | cut -c1-200)"
  rm -f /tmp/seed2-$c-$$.out
done
