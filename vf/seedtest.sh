#!/bin/sh
# vf/seedtest.sh <patch.diff> <demo.py|-> <check-id>...   : apply a seeded change to /repo, run the demo and the quick checks, undo.
PATCH="$1"; DEMO="$2"; shift 2
cd /repo || exit 2
if [ -n "$(git status --porcelain -uno)" ]; then echo "repo not clean"; exit 2; fi
if [ "$DEMO" != "-" ]; then
  PYTHONPATH=/repo /venv/bin/python -P "$DEMO" >/dev/null 2>&1; echo "demo on clean tree: exit $?"
fi
git apply "$PATCH" 2>/dev/null || patch -p1 -s --fuzz=3 < "$PATCH" || { echo "PATCH DOES NOT APPLY"; git checkout -- .; exit 2; }
find /repo -name '*.orig' -delete
if [ "$DEMO" != "-" ]; then
  PYTHONPATH=/repo /venv/bin/python -P "$DEMO" >/dev/null 2>&1; echo "demo on patched tree: exit $?"
fi
cd /verif
for c in "$@"; do
  ./check $c --tier quick > /tmp/seed-$c.out 2>&1; rc=$?
  echo "check $c: exit $rc; $(grep -c '^VIOLATION' /tmp/seed-$c.out) VIOLATION lines; $(grep -v Warning /tmp/seed-$c.out | tail -1 | cut -c1-200)"
done
git -C /repo checkout -- .
find /verif/replays -name '*.json' -delete 2>/dev/null
