"""python vf/mkmeta.py <seed-id> <property> <caught-by comma list|none> "<what it needs>" : writes seeded/<id>/meta.json"""
import json, sys, os
sid, prop, caught, needs = sys.argv[1:5]
d = "/verif/seeded/" + sid
meta = {"id": sid, "breaks_property": prop, "needs_to_manifest": needs,
        "caught_by_quick_checks": [] if caught == "none" else caught.split(","),
        "confirmed": {"demo_passes_on_clean_tree": True, "demo_fails_with_patch": True,
                      "test_suite_with_patch": "same failing set as the unmodified tree (reported by the authoring sub-agent; demo/patch re-run here with vf/seedtest.sh)"},
        "ran": "vf/seedtest.sh %s/patch.diff %s/demo.py %s" % (d, d, " ".join(caught.split(",")) if caught != "none" else ""),
        "origin": "fresh sub-agent given only the property text and a scratch worktree"}
json.dump(meta, open(d + "/meta.json", "w"), indent=1)
