"""Shared pieces for the reader checks (C18-C21): model comparison, time-limited reading, an independent tokenizer."""
import re
import signal


def meq(a, b):
    """Type-aware structural equality of two models (or lists of models)."""
    import hy

    if isinstance(a, list) and isinstance(b, list) and not isinstance(a, hy.models.Object):
        return len(a) == len(b) and all(meq(x, y) for x, y in zip(a, b))
    if type(a) is not type(b):
        return False
    if isinstance(a, hy.models.FComponent):
        if a.conversion != b.conversion:
            return False
    if isinstance(a, hy.models.FString):
        if a.brackets != b.brackets:
            return False
    if isinstance(a, hy.models.String) and a.brackets != b.brackets:
        return False
    if isinstance(a, hy.models.Sequence):
        return len(a) == len(b) and all(meq(x, y) for x, y in zip(a, b))
    if isinstance(a, float) and a != a:
        return b != b
    if isinstance(a, hy.models.Keyword):
        return a.name == b.name
    return a == b


class Timeout(BaseException):  # not an Exception: the reader converts stray Exceptions into LexException
    pass


def read_all(text, seconds=5, reader=None):
    """-> ("ok", [models]) | ("lex", excname) | ("other", excname, msg) | ("timeout",)"""
    import hy
    from hy.reader.exceptions import LexException, PrematureEndOfInput

    def onalarm(signum, frame):
        raise Timeout()

    old = None
    try:
        old = signal.signal(signal.SIGALRM, onalarm)
        signal.setitimer(signal.ITIMER_REAL, seconds)
    except ValueError:
        old = None  # not in the main thread: no watchdog
    try:
        try:
            return ("ok", list(hy.read_many(text, reader=reader)))
        except PrematureEndOfInput:
            return ("lex", "PrematureEndOfInput")
        except LexException:
            return ("lex", "LexException")
        except Timeout:
            return ("timeout",)
        except RecursionError:
            return ("other", "RecursionError", "")
        except Exception as e:
            return ("other", type(e).__name__, str(e)[:100])
    finally:
        if old is not None:
            signal.setitimer(signal.ITIMER_REAL, 0)
            signal.signal(signal.SIGALRM, old)


TOKEN = re.compile(r"""
  (?P<ws>\s+)
 |(?P<comment>;[^\n]*)
 |(?P<bstr>\#\[(?P<d>[^\[\]]*)\[.*?\](?P=d)\])
 |(?P<str>[rbf]{0,2}"(?:\\.|[^"\\])*")
 |(?P<open>\#\(|\#\{|\(|\[|\{)
 |(?P<close>\)|\]|\})
 |(?P<prefix>~@|\#\*\*|\#\*|\#\^|\#_|'|`|~)
 |(?P<atom>[^\s()\[\]{}";]+)
""", re.X | re.S)

NEEDS = {"#^": 2}


def tokens(text):
    out = []
    pos = 0
    while pos < len(text):
        m = TOKEN.match(text, pos)
        if not m:
            rest = text[pos:]
            if rest[:1] == '"' or rest[:2] == "#[" or (rest[:3].rstrip('"') in ("f", "b", "r", "br", "rb") and '"' in rest[:3]):
                # an unterminated string / bracket string (the text is a truncated program): one token that runs past the end
                out.append(("str", pos, len(text) + 1, rest + '"'))
                break
            raise ValueError("untokenizable at %d: %r" % (pos, text[pos:pos + 10]))
        out.append((m.lastgroup if m.lastgroup != "d" else "bstr", m.start(), m.end(), m.group()))
        pos = m.end()
    return out


def cut_class(text, n):
    """Classify the prefix text[:n] of a well-formed program: 'inside' an unclosed construct, 'between' top-level forms,
    or None (not judged: the cut splits an atom or a multi-character token at top level, where the shorter token may
    be a complete form, or leaves an ill-formed dotted identifier)."""
    frames = [[]]  # each frame: list of pending prefix counters

    def complete():
        # a form was completed in the current frame
        fr = frames[-1]
        while fr:
            fr[-1][0] -= 1
            if fr[-1][0] > 0:
                return
            done = fr.pop()  # the prefixed form is complete too: it completes a form for the next pending prefix ...
            if done[1] == "#_":
                return       # ... except for a discard, which produces no form

    for kind, s, e, txt in tokens(text):
        if e <= n:
            if kind in ("ws", "comment"):
                continue
            if kind in ("bstr", "str", "atom"):
                complete()
            elif kind == "open":
                frames.append([])
            elif kind == "close":
                frames.pop()
                complete()
            elif kind == "prefix":
                frames[-1].append([NEEDS.get(txt, 1), txt])
            continue
        if s >= n:
            break
        # the cut splits this token
        if kind in ("ws",):
            break
        if kind == "comment":
            break
        piece = txt[:n - s]
        if kind == "str" and n > s + txt.index('"'):
            return "inside"
        if kind == "bstr" and n >= s + 2:
            return "inside"
        # what was read is a shorter token: string prefix letters (an identifier), the first character(s) of a
        # multi-character prefix or opener ("#", "~", "#*"), or the beginning of an atom
        if piece in ("~", "#*"):
            return "inside"        # themselves prefixes that still wait for their form
        if len(frames) > 1 or frames[0]:
            # Still inside an open bracket or after a pending prefix: premature, whatever the piece is --
            # unless the piece is by itself an ill-formed token (a dotted identifier cut right after a dot,
            # or a keyword cut before its name inside a dotted form), where a lexing error is as legitimate.
            if kind == "atom" and (piece.endswith(".") and piece.strip(".") or ".." in piece.lstrip(".")):
                return None
            return "inside"
        return None
    if len(frames) > 1 or frames[0]:
        return "inside"
    return "between"
