"""Regenerates /verif/MANIFEST.json from checks/*.py (each claimed check module has MANIFEST = {...}).
Run: /verif/.venv/bin/python -m vf.manifest   (from /verif)"""
import importlib
import json
import os

HERE = os.path.dirname(os.path.dirname(os.path.abspath(__file__)))

PENDING_REASON = "check not built yet in this round; see DESIGN.md section 5 for the planned solver-based harness"


def main():
    props = [json.loads(l) for l in open(os.path.join(HERE, "properties.jsonl"))]
    checks = []
    na = []
    engines = {}
    for p in props:
        pid = p["id"]
        path = os.path.join(HERE, "checks", pid + ".py")
        m = None
        if os.path.exists(path):
            mod = importlib.import_module("checks." + pid)
            m = getattr(mod, "MANIFEST", None)
        if m is None or m.get("not_applicable"):
            na.append({"property_id": pid, "reason": (m or {}).get("not_applicable", PENDING_REASON)})
            continue
        c = {
            "property_id": pid,
            "quick_cmd": "./check %s --tier quick" % pid,
            "thorough_cmd": "./check %s --tier thorough" % pid,
            "evidence_file": "evidence/%s.json" % pid,
            "replay_cmd_template": "./check %s --replay {path}" % pid,
            "engine": m["engine"],
            "level_claimed": {"category": m["level"], "text": m["text"], "design_ref": m.get("design_ref", "DESIGN.md section 5, " + pid)},
            "level_note": m["note"],
            "technique": m["technique"],
        }
        checks.append(c)
        engines.setdefault(m["engine"], []).append(pid)
    ENG = {
        "B": ("vf/skel.py + vf/refsem.py", "translation validation of the real compiler's output under CrossHair/z3 symbolic inputs against a reference interpreter or equivalent Python text"),
        "A": ("vf/xh.py", "CrossHair/z3 symbolic execution of the real hy functions with the property clause as postcondition"),
        "Z": ("vf/bmc.py", "z3 bounded model checking of a transition system generated from the real function's bytecode"),
        "N": ("vf/ndset.py", "CrossHair/z3 with every set iteration order as solver-chosen permutation"),
    }
    man = {
        "version": 1,
        "setup_cmd": "./check --setup-only",
        "hooks": {
            "guard": "HY_VERIF",
            "enable": "no hooks are compiled into /repo; all stubs are harness-side monkeypatches listed per evidence file (HY_VERIF is reserved and unused)",
            "baseline_off_cmd": "cd /repo && /venv/bin/python -m pytest -ra -q -p no:cacheprovider --timeout=900 --continue-on-collection-errors",
            "source_commits": [],
            "add_only": True,
        },
        "engines": [
            {"name": k, "path": ENG[k][0], "serves_properties": v, "kind_free_text": ENG[k][1]} for k, v in sorted(engines.items())
        ],
        "checks": checks,
        "not_applicable": na,
        "notes": "Unguarded 'fix:' commits in /repo (genuine defects found by these checks, see known_findings.json): " + ", ".join(
            json.load(open(os.path.join(HERE, "known_findings.json"))).get("fix_commits", [])) + ". Solver-based checking (CrossHair 0.0.110 + z3 5.1.0) of the real hy code; every verdict is bounded, bounds are in each evidence file. Exit 3 = harness error (never a VIOLATION line).",
    }
    with open(os.path.join(HERE, "MANIFEST.json"), "w") as f:
        json.dump(man, f, indent=1)
    print("MANIFEST: %d checks, %d not_applicable" % (len(checks), len(na)))


if __name__ == "__main__":
    main()
