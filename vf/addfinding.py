"""python3 vf/addfinding.py <property> <fixed:COMMIT|known> <key_regex> <what>   (maintenance helper; never used at check time)"""
import json
import sys

p = "/verif/known_findings.json"
d = json.load(open(p))
prop, st, rx, what = sys.argv[1:5]
e = {"property": prop, "status": st.split(":")[0]}
if st.startswith("fixed:"):
    c = st.split(":")[1]
    e["commit"] = c
    if c not in d["fix_commits"]:
        d["fix_commits"].append(c)
    what = "fixed: property=%s %s %s" % (prop, c, what)
e["key_regex"] = rx
e["what"] = what
d["findings"].append(e)
json.dump(d, open(p, "w"), indent=1, ensure_ascii=True)
