"""CrossHair driver: runs harness functions through CrossHair's symbolic
executor in worker processes, classifies verdicts, replays counterexamples
natively, and returns JSON-able records.

A harness function returns True when the property clause holds on the path and
carries the PEP-316 contract ``post: __return__ == True`` (spelled ``post: _``).
It calls the real hy code (or code objects produced by the real hy compiler).
"""
import importlib.util
import multiprocessing as mp
import multiprocessing.connection
import os
import re
import sys
import time
import traceback
from collections import Counter
from dataclasses import dataclass, field

# ---------------------------------------------------------------- obligations


@dataclass
class Ob:
    name: str  # function name inside the harness module, unique per check
    src: str  # python source of the harness function (with contract)
    sample: object = None  # human-readable description for evidence
    twin: bool = False  # reachability twin: must be REFUTED
    timeout: float = None  # per-condition timeout override
    weight: float = 1.0  # scheduling hint (heavier first)
    group: str = ""  # family label for evidence


# ------------------------------------------------------------ solver counters

_SOLVER = Counter()
_SOLVER_T = [0.0]
_PATCHED = [False]


def patch_z3_counters():
    if _PATCHED[0]:
        return
    import z3

    orig = z3.Solver.check

    def check(self, *a):
        t0 = time.perf_counter()
        r = orig(self, *a)
        _SOLVER_T[0] += time.perf_counter() - t0
        _SOLVER[str(r)] += 1
        return r

    z3.Solver.check = check
    _PATCHED[0] = True


def patch_crosshair_for_hy():
    """Tool-side patches (listed in every evidence file under 'stubs')."""
    import tokenize

    import crosshair.util as cu

    if getattr(cu, "_vf_patched", False):
        return
    orig = cu.getsourcelines if hasattr(cu, "getsourcelines") else None
    if orig is not None:

        def getsourcelines(obj):
            try:
                return orig(obj)
            except (tokenize.TokenError, SyntaxError, IndentationError) as e:
                raise OSError(str(e))

        cu.getsourcelines = getsourcelines
        # modules that did "from crosshair.util import getsourcelines"
        for m in list(sys.modules.values()):
            if m is not None and getattr(m, "__name__", "").startswith("crosshair"):
                if getattr(m, "getsourcelines", None) is orig:
                    m.getsourcelines = getsourcelines
    # inspect.getsourcelines on .hy-defined functions raises TokenError too
    import inspect

    iorig = inspect.getsourcelines

    def igetsourcelines(obj):
        try:
            return iorig(obj)
        except (tokenize.TokenError, SyntaxError, IndentationError) as e:
            raise OSError(str(e))

    inspect.getsourcelines = igetsourcelines

    # CrossHair looks for contracts on every callee via inspect.getclosurevars, which
    # raises ValueError("Cell is empty") for a closure whose `nonlocal` variable is not
    # assigned yet (Hy's generator-function comprehension strategy produces those).
    import crosshair.fnutil as cf

    gorig = cf.getclosurevars

    def getclosurevars(fn):
        try:
            return gorig(fn)
        except ValueError:
            return inspect.ClosureVars({}, getattr(fn, "__globals__", {}), {}, set())

    cf.getclosurevars = getclosurevars
    cu._vf_patched = True


# ------------------------------------------------------------------- analysis

_CALL_RE = re.compile(r"when calling (\w+)\((.*)\)(?: \(which returns .*\))?$", re.S)


def parse_cex(message, fname):
    """Recover the concrete arguments from a CrossHair counterexample message."""
    m = _CALL_RE.search(message.strip())
    if not m:
        return None
    call = "%s(%s)" % (m.group(1), m.group(2))
    # strip trailing "(which returns ...)" robustly: try progressively shorter
    env = {m.group(1): lambda *a, **kw: (a, kw), "float": float}
    txt = call
    while txt:
        try:
            a, kw = eval(txt, env)
            return {"args": list(a), "kwargs": kw}
        except Exception:
            i = txt.rfind(" (which returns")
            if i < 0:
                return None
            txt = txt[:i]
    return None


def _load_module(path):
    name = "vfh_" + os.path.basename(path)[:-3]
    if name in sys.modules:
        return sys.modules[name]
    spec = importlib.util.spec_from_file_location(name, path)
    mod = importlib.util.module_from_spec(spec)
    sys.modules[name] = mod
    spec.loader.exec_module(mod)
    return mod


def _native_replay(fn, cex):
    """Run the harness natively (no CrossHair) on concrete args.
    Returns (reproduces: bool, detail: str)."""
    sk = sys.modules.get("vf.skel")
    if sk is not None:
        sk.EXPLAIN[0] = True
        del sk.LAST_WHY[:]
    try:
        r = fn(*cex["args"], **cex["kwargs"])
    except BaseException as e:  # noqa
        return True, "raised %s: %s" % (type(e).__name__, e)
    finally:
        if sk is not None:
            sk.EXPLAIN[0] = False
    if r is True:
        return False, "harness returned True natively"
    why = "; ".join(str(w) for w in sk.LAST_WHY) if sk is not None and sk.LAST_WHY else ""
    return True, "harness returned %r natively%s" % (r, (": " + why) if why else "")


def analyze_one(mod, ob_name, timeout, path_timeout, twin):
    from crosshair.core_and_libs import analyze_function, run_checkables
    from crosshair.options import AnalysisOptionSet
    from crosshair.statespace import MessageType

    fn = getattr(mod, ob_name)
    stats = Counter()
    q0 = sum(_SOLVER.values())
    st0 = _SOLVER_T[0]
    t0 = time.perf_counter()
    opts = AnalysisOptionSet(
        per_condition_timeout=timeout,
        per_path_timeout=path_timeout,
        report_all=True,
        max_uninteresting_iterations=10**9,
        stats=stats,
    )
    rec = {"name": ob_name, "twin": twin}
    try:
        checkables = analyze_function(fn, opts)
        msgs = run_checkables(checkables)
    except BaseException as e:  # noqa
        rec.update(verdict="DRIVER_ERR", detail=traceback.format_exc()[-1500:])
        msgs = None
    rec["wall_s"] = round(time.perf_counter() - t0, 3)
    rec["paths"] = stats.get("num_paths", 0)
    rec["queries"] = sum(_SOLVER.values()) - q0
    rec["solver_s"] = round(_SOLVER_T[0] - st0, 4)
    if msgs is None:
        return rec
    if not msgs:
        rec.update(verdict="NO_CONDITIONS")
        return rec
    states = [m.state for m in msgs]
    order = [
        MessageType.POST_FAIL,
        MessageType.EXEC_ERR,
        MessageType.POST_ERR,
        MessageType.PRE_UNSAT,
        MessageType.SYNTAX_ERR,
        MessageType.IMPORT_ERR,
        MessageType.CANNOT_CONFIRM,
        MessageType.CONFIRMED,
    ]
    worst = None
    for s in order:
        if s in states:
            worst = s
            break
    m = msgs[states.index(worst)]
    rec["verdict"] = worst.name
    rec["message"] = m.message[:2000]
    if worst in (MessageType.POST_FAIL, MessageType.EXEC_ERR):
        cex = parse_cex(m.message, ob_name)
        rec["cex"] = cex
        if cex is not None:
            if not twin:
                rep, detail = _native_replay(fn, cex)
                rec["reproduces"] = rep
                rec["replay_detail"] = detail[:1500]
        else:
            rec["reproduces"] = None
            if worst == MessageType.EXEC_ERR:
                rec["detail"] = (m.traceback or "")[-1500:]
    return rec


def _worker(task, emit=None):
    path, names, timeout, path_timeout = task
    patch_z3_counters()
    patch_crosshair_for_hy()
    out = []
    try:
        mod = _load_module(path)
    except BaseException:  # noqa
        tb = traceback.format_exc()[-2000:]
        return [
            {"name": n, "twin": tw, "verdict": "IMPORT_ERR", "detail": tb,
             "paths": 0, "queries": 0, "solver_s": 0.0, "wall_s": 0.0}
            for (n, tw, _) in names
        ]
    prog = os.environ.get("VF_PROGRESS")
    for n, tw, to in names:
        r = analyze_one(mod, n, to or timeout, path_timeout, tw)
        if prog:
            sys.stderr.write("  [%s] %s %s paths=%s wall=%.1fs\n" % (
                os.path.basename(path), n, r.get("verdict"), r.get("paths"), r.get("wall_s", 0)))
            sys.stderr.flush()
        out.append(r)
        if emit is not None:
            emit(r)
    return out


def _child(conn):
    """Persistent worker: receives tasks over a duplex pipe, sends one record per
    obligation and a ("done",) marker per task.  A crash (or the parent's
    watchdog) loses at most the task in flight."""
    try:
        while True:
            task = conn.recv()
            if task is None:
                break
            r = _worker(task, emit=lambda rec: conn.send(("rec", rec)))
            if r and r[0].get("verdict") == "IMPORT_ERR":
                for rec in r:
                    conn.send(("rec", rec))
            conn.send(("done",))
    except BaseException:  # noqa
        pass
    finally:
        os._exit(0)


class _W:
    def __init__(self, ctx):
        self.conn, cc = ctx.Pipe(duplex=True)
        self.proc = ctx.Process(target=_child, args=(cc,), daemon=True)
        self.proc.start()
        cc.close()
        self.task = None
        self.deadline = 0.0
        self.got = []
        self.ntasks = 0

    def give(self, t):
        self.task = t
        self.got = []
        self.ntasks += 1
        budget = sum((to or t[2]) for (_, _, to) in t[1]) * 1.5 + 120
        self.deadline = time.time() + budget
        self.conn.send(t)

    def stop(self):
        try:
            self.conn.send(None)
        except Exception:
            pass
        self.proc.join(2)
        if self.proc.is_alive():
            self.proc.kill()
        try:
            self.conn.close()
        except Exception:
            pass


def _lost(t, got):
    have = {r["name"] for r in got}
    out = list(got)
    for (n, tw, _) in t[1]:
        if n not in have:
            out.append({"name": n, "twin": tw, "verdict": "WORKER_LOST", "paths": 0, "queries": 0,
                        "solver_s": 0.0, "wall_s": 0.0,
                        "message": "worker process died or exceeded its watchdog before finishing this obligation"})
    return out


def _run_tasks(tasks, procs):
    ctx = mp.get_context("fork")
    pending = list(tasks)
    workers = [_W(ctx) for _ in range(min(procs, len(pending)))]
    results = []
    while pending or any(w.task is not None for w in workers):
        for i, w in enumerate(workers):
            if w.task is None and pending:
                if w.ntasks >= 40:  # recycle long-lived workers (memory)
                    w.stop()
                    w = workers[i] = _W(ctx)
                w.give(pending.pop(0))
        busy = [w for w in workers if w.task is not None]
        ready = mp.connection.wait([w.conn for w in busy], timeout=1.0)
        now = time.time()
        for i, w in enumerate(workers):
            if w.task is None:
                continue
            dead = False
            if w.conn in ready:
                try:
                    while w.conn.poll():
                        msg = w.conn.recv()
                        if msg[0] == "rec":
                            w.got.append(msg[1])
                        elif msg[0] == "done":
                            results.extend(_lost(w.task, w.got))
                            w.task = None
                            break
                except (EOFError, OSError):
                    dead = True
            if w.task is not None and (dead or now > w.deadline or not w.proc.is_alive()):
                try:
                    w.proc.kill()
                except Exception:
                    pass
                results.extend(_lost(w.task, w.got))
                w.task = None
                try:
                    w.conn.close()
                except Exception:
                    pass
                workers[i] = _W(ctx)
    for w in workers:
        w.stop()
    return results


def run_obligations(obs, preamble, workdir, timeout=30.0, path_timeout=10.0,
                    procs=None, batch=8, tag="h"):
    """Write harness files, analyse everything in a process pool."""
    procs = procs or min(16, os.cpu_count() or 1)
    obs = list(obs)
    # heavier first, then round-robin into batches
    obs.sort(key=lambda o: -o.weight)
    nb = max(1, (len(obs) + batch - 1) // batch)
    batches = [[] for _ in range(nb)]
    for i, o in enumerate(obs):
        batches[i % nb].append(o)
    tasks = []
    for bi, b in enumerate(batches):
        if not b:
            continue
        path = os.path.join(workdir, "%s_%04d.py" % (tag, bi))
        with open(path, "w") as f:
            f.write(preamble)
            f.write("\n\n")
            for o in b:
                f.write(o.src)
                f.write("\n\n")
        tasks.append((path, [(o.name, o.twin, o.timeout) for o in b], timeout, path_timeout))
    results = []
    if procs == 1 or len(tasks) == 1:
        for t in tasks:
            results.extend(_worker(t))
    else:
        # import the heavy modules once, before forking
        import crosshair.core_and_libs  # noqa
        import hy  # noqa
        import hy.pyops  # noqa
        import hy.core.hy_repr  # noqa

        patch_z3_counters()
        patch_crosshair_for_hy()
        results = _run_tasks(tasks, procs)
    byname = {r["name"]: r for r in results}
    return [byname.get(o.name, {"name": o.name, "verdict": "MISSING", "twin": o.twin,
                                "paths": 0, "queries": 0, "solver_s": 0.0, "wall_s": 0.0})
            for o in obs], obs
