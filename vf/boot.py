"""Bootstrap: make sure the overlay venv (/verif/.venv = /venv + crosshair + z3)
exists, then re-exec the real driver inside it.  Idempotent and file-locked so
that 16 checks started at once build it only once."""
import fcntl
import os
import shutil
import subprocess
import sys
import tempfile

HERE = os.path.dirname(os.path.dirname(os.path.abspath(__file__)))
VENV = os.path.join(HERE, ".venv")
PY = os.path.join(VENV, "bin", "python")
WHEELS = "/opt/veriftools/wheels"
BASE_SITE = "/venv/lib/python3.12/site-packages"


def venv_ok():
    if not os.path.exists(PY):
        return False
    r = subprocess.run(
        [PY, "-c", "import crosshair, z3, hy, funcparserlib"],
        capture_output=True,
    )
    return r.returncode == 0


def build():
    if os.path.exists(VENV):
        shutil.rmtree(VENV)
    subprocess.check_call(["/venv/bin/python", "-m", "venv", VENV])
    sp = os.path.join(VENV, "lib", "python3.12", "site-packages")
    with open(os.path.join(sp, "_base.pth"), "w") as f:
        # hy itself is imported from /repo's working tree; its dependency
        # (funcparserlib) comes from the repository's own environment.
        f.write(BASE_SITE + "\n/repo\n")
    subprocess.check_call(
        [PY, "-m", "pip", "install", "-q", "--no-index", "--find-links", WHEELS,
         "crosshair-tool", "z3-solver"],
        env={**os.environ, "PIP_NO_INDEX": "1"},
    )


def ensure():
    lock = os.path.join(HERE, ".bootlock")
    with open(lock, "w") as lf:
        fcntl.flock(lf, fcntl.LOCK_EX)
        if not venv_ok():
            build()
            if not venv_ok():
                print("HARNESS-ERROR: cannot build overlay venv", flush=True)
                sys.exit(3)


def main():
    ensure()
    if len(sys.argv) > 1 and sys.argv[1] == "--setup-only":
        print("setup ok")
        return
    env = dict(os.environ)
    env["PYTHONPATH"] = HERE + os.pathsep + env.get("PYTHONPATH", "")
    env["PYTHONHASHSEED"] = env.get("PYTHONHASHSEED", "0")
    # fresh bytecode cache per invocation: nothing stale from an earlier
    # state of /repo can be picked up, and /repo is not written to.
    pyc = tempfile.mkdtemp(prefix="vf-pyc-")
    env["PYTHONPYCACHEPREFIX"] = pyc
    env["VF_PYC_DIR"] = pyc
    try:
        r = subprocess.run([PY, "-m", "vf.main"] + sys.argv[1:], env=env, cwd=HERE)
        rc = r.returncode
    finally:
        shutil.rmtree(pyc, ignore_errors=True)
    sys.exit(rc)


if __name__ == "__main__":
    main()
