"""Engine N: 'for every PYTHONHASHSEED' over-approximated by 'for every iteration order of every set'.

The names set / frozenset in the module namespaces of the compile path are rebound (harness side, no repo change) to
subclasses whose __iter__ yields the elements in an order chosen by a sequence of solver-supplied integers.
An AST audit of the same modules lists set displays / set comprehensions / dict-view set algebra that rebinding the
*name* cannot reach."""
import ast
import inspect

MODULES = ["hy.scoping", "hy.compiler", "hy.core.result_macros", "hy.macros", "hy.models", "hy.model_patterns", "hy.reader.hy_reader", "hy.reader.mangling"]

CHOICES = []  # consumed in sequence by NDSet.__iter__
POS = [0]
USED = [0]


def _next_choice(n):
    """A number in range(n) from the choice sequence (0 when exhausted)."""
    i = POS[0]
    POS[0] += 1
    if i < len(CHOICES):
        USED[0] += 1
        c = CHOICES[i]
        # explicit forks keep the value concrete afterwards
        for k in range(n):
            if c == k:
                return k
        return 0
    return 0


def _ordered(raw_iter):
    items = sorted(raw_iter, key=repr)  # canonical order first
    out = []
    while items:
        k = _next_choice(len(items)) if len(items) > 1 else 0
        out.append(items.pop(k))
    return out


def _raw(o):
    if isinstance(o, NDSet):
        return list(set.__iter__(o))
    if isinstance(o, NDFrozenSet):
        return list(frozenset.__iter__(o))
    return list(o)


class NDSet(set):
    def __iter__(self):
        return iter(_ordered(set.__iter__(self)))

    # (no builtin set() calls in here: under CrossHair the name `set` builds a ShellMutableSet)
    def union(self, *a):
        items = list(set.__iter__(self))
        for o in a:
            for e in _raw(o):
                if e not in items:
                    items.append(e)
        return NDSet(items)

    def intersection(self, *a):
        others = [_raw(o) for o in a]
        return NDSet([e for e in set.__iter__(self) if all(e in o for o in others)])

    def difference(self, *a):
        others = [_raw(o) for o in a]
        return NDSet([e for e in set.__iter__(self) if not any(e in o for o in others)])

    def symmetric_difference(self, a):
        o = _raw(a)
        mine = list(set.__iter__(self))
        return NDSet([e for e in mine if e not in o] + [e for e in o if e not in mine])

    def copy(self):
        return NDSet(list(set.__iter__(self)))

    def issuperset(self, o):
        mine = list(set.__iter__(self))
        return all(e in mine for e in _raw(o))

    def issubset(self, o):
        other = _raw(o)
        return all(e in other for e in set.__iter__(self))

    def __or__(self, o):
        return self.union(o)

    def __and__(self, o):
        return self.intersection(o)

    def __sub__(self, o):
        return self.difference(o)

    def __xor__(self, o):
        return self.symmetric_difference(o)

    __ror__ = __or__
    __rand__ = __and__

    def pop(self):
        items = _ordered(set.__iter__(self))
        v = items[0]
        set.discard(self, v)
        return v


class NDFrozenSet(frozenset):
    def __iter__(self):
        return iter(_ordered(frozenset.__iter__(self)))


def install():
    """Rebind set/frozenset in the compile-path modules.  Returns an undo function."""
    import importlib

    saved = []
    for name in MODULES:
        m = importlib.import_module(name)
        for attr, cls in (("set", NDSet), ("frozenset", NDFrozenSet)):
            had = attr in m.__dict__
            saved.append((m, attr, had, m.__dict__.get(attr)))
            m.__dict__[attr] = cls

    def undo():
        for m, attr, had, old in saved:
            if had:
                m.__dict__[attr] = old
            else:
                m.__dict__.pop(attr, None)

    return undo


def start(choices):
    del CHOICES[:]
    for c in choices:
        CHOICES.append(c)
    POS[0] = 0
    USED[0] = 0


def audit():
    """Constructs that create sets without going through the *name* set/frozenset (not reached by the rebinding)."""
    import importlib

    found = []
    for name in MODULES:
        m = importlib.import_module(name)
        try:
            src = inspect.getsource(m)
        except Exception:
            continue
        tree = ast.parse(src)
        for node in ast.walk(tree):
            if isinstance(node, (ast.Set, ast.SetComp)):
                found.append((name, node.lineno, type(node).__name__, ast.unparse(node)[:80]))
            elif isinstance(node, ast.Call) and isinstance(node.func, ast.Attribute) and node.func.attr in ("keys", "items") \
                    and False:
                pass
    return found
