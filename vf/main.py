"""./check <ID> [--tier quick|thorough] [--replay FILE] [--only REGEX] [--procs N]

Exit codes: 0 no violation on everything explored; 1 replay-confirmed violation
not listed in known_findings.json (prints VIOLATION line); 3 harness error.
"""
import argparse
import hashlib
import importlib
import json
import os
import re
import shutil
import sys
import tempfile
import time

HERE = os.path.dirname(os.path.dirname(os.path.abspath(__file__)))


def load_findings():
    p = os.path.join(HERE, "known_findings.json")
    if not os.path.exists(p):
        return []
    return json.load(open(p))["findings"]


def match_finding(findings, pid, key):
    for f in findings:
        if f["property"] == pid and f.get("status") == "known":
            if re.search(f["key_regex"], key):
                return f
    return None


def main():
    ap = argparse.ArgumentParser()
    ap.add_argument("pid")
    ap.add_argument("--tier", default=os.environ.get("VERIF_TIER", "quick"))
    ap.add_argument("--replay", default=None)
    ap.add_argument("--only", default=None)
    ap.add_argument("--procs", type=int, default=None)
    ap.add_argument("--keep", action="store_true")
    ap.add_argument("--verbose", "-v", action="store_true")
    a = ap.parse_args()
    if a.tier not in ("quick", "thorough"):
        a.tier = "quick"
    seed = int(os.environ.get("VERIF_SEED", "0") or 0)
    pid = a.pid
    t0 = time.time()

    sys.setrecursionlimit(10000)
    from vf import xh

    xh.patch_z3_counters()
    mod = importlib.import_module("checks." + pid)

    if a.replay:
        rc = mod.replay(a.replay) if hasattr(mod, "replay") else generic_replay(mod, a.replay)
        sys.exit(rc)

    workdir = tempfile.mkdtemp(prefix="vf-%s-" % pid)
    try:
        rc = run(mod, pid, a, seed, workdir, t0)
    finally:
        if not a.keep:
            shutil.rmtree(workdir, ignore_errors=True)
        else:
            print("kept", workdir)
    sys.exit(rc)


def generic_replay(mod, path):
    """Re-run one recorded counterexample natively against the current tree."""
    from vf import xh

    rec = json.load(open(path))
    workdir = tempfile.mkdtemp(prefix="vf-replay-")
    try:
        hp = os.path.join(workdir, "replay_h.py")
        with open(hp, "w") as f:
            f.write(rec["preamble"] + "\n\n" + rec["src"] + "\n")
        m = xh._load_module(hp)
        fn = getattr(m, rec["name"])
        rep, detail = xh._native_replay(fn, rec["cex"])
        print("replay:", "REPRODUCES" if rep else "does not reproduce", "-", detail)
        if rep:
            print("VIOLATION property=%s replay=%s" % (rec["property"], path))
            return 1
        return 0
    finally:
        shutil.rmtree(workdir, ignore_errors=True)


def run(mod, pid, a, seed, workdir, t0):
    from vf import xh

    spec = mod.spec(a.tier, seed)
    obs = spec["obligations"]
    if a.only:
        obs = [o for o in obs if re.search(a.only, o.name) or re.search(a.only, str(o.sample))]
    import random

    random.Random(seed).shuffle(obs)
    extra_recs = []
    results, obs = xh.run_obligations(
        obs,
        spec["preamble"],
        workdir,
        timeout=spec.get("timeout", 30.0),
        path_timeout=spec.get("path_timeout", 10.0),
        procs=a.procs,
        batch=spec.get("batch", 8),
    ) if obs else ([], [])
    if "extra" in spec and not a.only:
        extra_recs = spec["extra"](a.tier, seed, workdir)  # list of records (same shape)

    findings = load_findings()
    violations = []
    known = []
    inconclusive = []
    harness_err = []
    discharged = 0
    twins_refuted = 0
    twins = 0
    paths = 0
    queries = 0
    solver_s = 0.0
    nontrivial = 0
    samples = []
    obmap = {o.name: o for o in obs}
    bygroup = {}

    def classify(rec, ob):
        nonlocal discharged, twins_refuted, twins, paths, queries, solver_s, nontrivial
        paths += rec.get("paths", 0)
        queries += rec.get("queries", 0)
        solver_s += rec.get("solver_s", 0.0)
        v = rec["verdict"]
        g = bygroup.setdefault(ob.group if ob else rec.get("group", ""), {"obligations": 0, "discharged": 0})
        if rec.get("twin"):
            twins += 1
            if v in ("POST_FAIL",):
                twins_refuted += 1
            else:
                harness_err.append((rec, "vacuity twin not refuted: " + v))
            return
        g["obligations"] += 1
        if rec.get("paths", 0) >= 2 or rec.get("nontrivial"):
            nontrivial += 1
        if v == "CONFIRMED":
            discharged += 1
            g["discharged"] += 1
        elif v in ("POST_FAIL", "EXEC_ERR"):
            rep = rec.get("reproduces")
            if rep is True:
                key = mod.finding_key(ob, rec) if hasattr(mod, "finding_key") else "%s :: %s :: %s" % (
                    ob.sample if ob else rec.get("sample"), json.dumps(rec.get("cex"), default=str, sort_keys=True),
                    rec.get("replay_detail"))
                rec["key"] = key
                f = match_finding(findings, pid, key)
                if f:
                    known.append((rec, f))
                else:
                    violations.append((rec, ob))
            elif rep is False:
                harness_err.append((rec, "counterexample does not reproduce natively: %s" % rec.get("replay_detail")))
            else:
                if v == "EXEC_ERR":
                    harness_err.append((rec, "EXEC_ERR without parsable counterexample: %s %s" % (rec.get("message"), rec.get("detail"))))
                else:
                    inconclusive.append(rec)
        elif v in ("IMPORT_ERR", "DRIVER_ERR", "MISSING", "SYNTAX_ERR", "NO_CONDITIONS", "POST_ERR"):
            harness_err.append((rec, v + ": " + str(rec.get("detail") or rec.get("message"))))
        else:
            inconclusive.append(rec)

    for rec, ob in zip(results, obs):
        classify(rec, ob)
    for rec in extra_recs:
        classify(rec, None)

    n_ob = sum(1 for r in results if not r.get("twin")) + sum(1 for r in extra_recs if not r.get("twin"))
    # samples: a few obligations written out
    for rec, ob in list(zip(results, obs))[:6]:
        samples.append({"obligation": ob.name, "case": ob.sample, "verdict": rec["verdict"],
                        "paths": rec.get("paths"), "queries": rec.get("queries")})
    for rec in extra_recs[:4]:
        samples.append({"obligation": rec["name"], "case": rec.get("sample"), "verdict": rec["verdict"]})

    # ---- report
    rc = 0
    seen_kf = set()
    for rec, f in known:
        if f["what"] not in seen_kf:
            seen_kf.add(f["what"])
            print("KNOWN-FINDING: property=%s %s" % (pid, f["what"]))
    # VF_OUT: maintenance only (vf/seedtest2.sh runs a check against a scratch checkout without touching the committed evidence)
    OUT = os.environ.get("VF_OUT") or HERE
    os.makedirs(os.path.join(OUT, "replays"), exist_ok=True)
    if len(violations) > 25:
        print('(%d violations; writing replay files for the first 25)' % len(violations))
    for rec, ob in violations[:25]:
        body = {
            "property": pid, "name": rec["name"], "cex": rec.get("cex"),
            "sample": ob.sample if ob else rec.get("sample"),
            "key": rec.get("key"), "detail": rec.get("replay_detail") or rec.get("detail"),
            "message": rec.get("message"),
            "preamble": spec["preamble"] if ob else "", "src": ob.src if ob else "",
        }
        h = hashlib.sha1(json.dumps(body, sort_keys=True, default=str).encode()).hexdigest()[:10]
        path = os.path.join(OUT, "replays", "%s-%s.json" % (pid, h))
        with open(path, "w") as f:
            json.dump(body, f, indent=1, default=str)
        print("VIOLATION property=%s replay=%s" % (pid, path))
        print("   case: %s" % (body["sample"],))
        print("   cex: %s  -> %s" % (json.dumps(rec.get("cex"), default=str), body["detail"]))
        rc = 1
    for rec in inconclusive:
        print("INCONCLUSIVE property=%s obligation=%s verdict=%s paths=%s %s" % (
            pid, rec["name"], rec["verdict"], rec.get("paths"), (rec.get("message") or "")[:200]))
    for rec, why in harness_err:
        print("HARNESS-ERROR property=%s obligation=%s %s" % (pid, rec["name"], why[:3000]))
    if harness_err and rc == 0:
        rc = 3

    wall = time.time() - t0
    level = spec["level"]
    cov = {
        "evaluations": max(paths, 1) if n_ob else 0,
        "distinct_nontrivial": nontrivial,
        "rule": spec.get("rule", "one evaluation = one symbolic path explored by CrossHair; an obligation is non-trivial when "
                         "the solver had to split it into >= 2 feasible paths"),
        "samples": samples,
        "obligations": n_ob,
        "discharged": discharged,
        "inconclusive": len(inconclusive),
        "known_findings_hit": len(known),
        "solver_queries": queries,
        "solver_time_s": round(solver_s, 3),
        "paths": paths,
        "vacuity_twins": twins,
        "vacuity_twins_refuted": twins_refuted,
        "functions_encoded": spec.get("functions_encoded", []),
        "bounds": spec.get("bounds", ""),
        "outside_bounds": spec.get("outside", ""),
        "grade": spec.get("grade", ""),
        "stubs": spec.get("stubs", []),
        "groups": bygroup,
        "exhaustive": len(inconclusive) == 0 and not harness_err,
    }
    if level == "translation_validation":
        cov["programs"] = spec.get("programs", n_ob)
        cov["disagreements_checked"] = len(violations) + len(known) + sum(
            1 for r in results if r.get("reproduces") is not None)
    if level == "model_checking":
        cov["states"] = max(paths, 1)
        cov["transitions"] = max(queries, 1)
        cov["traces_validated_against_impl"] = spec.get("traces_validated", 0) + sum(
            1 for r in results if r.get("reproduces") is not None)
    cov.update(spec.get("coverage_extra", {}))
    ev = {
        "property_id": pid,
        "tier": a.tier,
        "seed": seed,
        "level": level,
        "coverage": cov,
        "assumptions": spec.get("assumptions", []),
        "wall_s": round(wall, 2),
        "violations": len(violations),
    }
    if not a.only:
        os.makedirs(os.path.join(OUT, "evidence"), exist_ok=True)
        with open(os.path.join(OUT, "evidence", pid + ".json"), "w") as f:
            json.dump(ev, f, indent=1, default=str)
    print("%s tier=%s obligations=%d discharged=%d inconclusive=%d known=%d violations=%d harness_err=%d "
          "paths=%d queries=%d solver_s=%.1f twins=%d/%d wall=%.1fs" % (
              pid, a.tier, n_ob, discharged, len(inconclusive), len(known), len(violations),
              len(harness_err), paths, queries, solver_s, twins_refuted, twins, wall))
    return rc


if __name__ == "__main__":
    main()
