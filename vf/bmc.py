"""Engine Z: bounded model checking of hy.gensym's critical section.

The transition system is generated from dis.get_instructions(hy.core.util.gensym) of the *current* build by a small
abstract interpretation of the straight-line prefix of the function; anything not recognised makes the result
INCONCLUSIVE, never 'held'.  Shared steps per call: ACQ(lock) / READ(counter) / WRITE(counter) / READ(counter)->n / REL(lock).
z3 variables: initial counter c0, one scheduling choice per global step.  Counterexample schedules are replayed on the
real function with real threads, serialised by a sys.monitoring INSTRUCTION hook (PEP 669).
"""
import dis
import sys
import threading
import time


class Unrecognised(Exception):
    pass


def extract(fn, counter="_gensym_counter", lock="_gensym_lock"):
    """-> list of steps (kind, offset, extra) in program order for one call, and the local var that receives n."""
    ins = list(dis.get_instructions(fn))
    steps = []
    stack = []  # abstract values: ("lock",), ("bound", name), ("cnt", k) = counter value read + k, ("const", c), ("other",)
    n_var = None
    i = 0
    result_var = None
    while i < len(ins):
        op = ins[i]
        name = op.opname
        if name in ("RESUME", "NOP", "CACHE", "PUSH_NULL", "COPY_FREE_VARS", "MAKE_CELL"):
            pass
        elif name == "LOAD_GLOBAL":
            gname = op.argval
            if gname == lock:
                stack.append(("lock",))
            elif gname == counter:
                steps.append(("READ", op.offset, None))
                stack.append(("cnt", len(steps) - 1, 0))
            else:
                # after the critical section: stop
                if n_var is not None and not any(s[0] == "lock" for s in stack) and _released(steps):
                    break
                stack.append(("other",))
        elif name == "LOAD_ATTR":
            top = stack.pop() if stack else ("other",)
            if top == ("lock",) and op.argval in ("acquire", "release"):
                stack.append(("bound", op.argval))
            elif top == ("lock",) and op.argval in ("__enter__", "__exit__"):
                stack.append(("bound", "acquire" if op.argval == "__enter__" else "release"))
            else:
                stack.append(("other",))
        elif name == "CALL":
            argc = op.argval or 0
            args = [stack.pop() for _ in range(argc)] if argc else []
            callee = stack.pop() if stack else ("other",)
            if callee[0] == "bound" and argc == 0:
                steps.append(("ACQ" if callee[1] == "acquire" else "REL", op.offset, None))
                stack.append(("other",))
            else:
                if not _released(steps) and any(s[0] in ("ACQ",) for s in steps):
                    raise Unrecognised("call inside the critical section at offset %d" % op.offset)
                stack.append(("other",))
        elif name == "POP_TOP":
            if stack:
                stack.pop()
        elif name == "LOAD_CONST":
            stack.append(("const", op.argval))
        elif name == "BINARY_OP":
            b = stack.pop()
            a = stack.pop()
            if a[0] == "cnt" and b[0] == "const" and isinstance(b[1], int) and op.argrepr in ("+=", "+"):
                stack.append(("cnt", a[1], a[2] + b[1]))
            elif a[0] == "cnt" or b[0] == "cnt":
                raise Unrecognised("arithmetic on the counter not understood at offset %d (%s)" % (op.offset, op.argrepr))
            else:
                stack.append(("other",))
        elif name == "STORE_GLOBAL":
            v = stack.pop()
            if op.argval == counter:
                if v[0] != "cnt":
                    raise Unrecognised("counter assigned from something that is not counter+const at offset %d" % op.offset)
                steps.append(("WRITE", op.offset, (v[1], v[2])))
            else:
                pass
        elif name == "STORE_FAST":
            v = stack.pop() if stack else ("other",)
            if v[0] == "cnt":
                if v[2] != 0:
                    # n = counter + k computed locally from read v[1]
                    pass
                n_var = op.argval
                steps.append(("NSET", op.offset, (v[1], v[2])))
        elif name in ("LOAD_FAST", "LOAD_FAST_CHECK"):
            stack.append(("other",))
        elif name in ("BEFORE_WITH",):
            top = stack.pop()
            if top == ("lock",):
                steps.append(("ACQ", op.offset, None))
                stack.append(("exitfn",))
                stack.append(("other",))
            else:
                raise Unrecognised("with on a non-lock at %d" % op.offset)
        elif name in ("RETURN_VALUE", "RETURN_CONST"):
            break
        elif name.startswith("POP_JUMP") or name.startswith("JUMP") or name in ("FOR_ITER",):
            if n_var is not None and _released(steps):
                break
            raise Unrecognised("branch inside the analysed prefix at offset %d (%s)" % (op.offset, name))
        else:
            if n_var is not None and _released(steps):
                break
            if name in ("COPY", "SWAP", "PUSH_EXC_INFO", "WITH_EXCEPT_START", "POP_EXCEPT", "RERAISE", "KW_NAMES", "BUILD_TUPLE", "FORMAT_VALUE", "BUILD_STRING"):
                raise Unrecognised("opcode %s at %d inside the analysed prefix" % (name, op.offset))
            raise Unrecognised("opcode %s at %d not understood" % (name, op.offset))
        i += 1
    if n_var is None:
        raise Unrecognised("no local variable receives the counter value")
    kinds = [s[0] for s in steps]
    return steps, n_var


def _released(steps):
    kinds = [s[0] for s in steps]
    if "ACQ" not in kinds:
        return True
    return kinds.count("REL") >= kinds.count("ACQ")


def shared_steps(steps):
    """NSET is thread-local: fold it into the read it depends on."""
    return [s for s in steps if s[0] != "NSET"]


def check(steps, T, calls, timeout_ms=120000):
    """BMC.  Returns ('unsat', stats) if distinctness and the final counter hold for every schedule,
    ('sat', schedule, c0, stats) with a counterexample, or ('unknown', reason, stats)."""
    import z3

    sh = shared_steps(steps)
    nset = [s for s in steps if s[0] == "NSET"]
    per_call = len(sh)
    L = per_call * calls  # steps per thread
    S = L * T
    t0 = time.time()
    s = z3.Solver()
    s.set("timeout", timeout_ms)
    c0 = z3.Int("c0")
    sched = [z3.Int("sched_%d" % i) for i in range(S)]
    # state at time i
    counter = [z3.Int("counter_%d" % i) for i in range(S + 1)]
    lockheld = [z3.Int("lock_%d" % i) for i in range(S + 1)]  # -1 free, else owner
    pc = [[z3.Int("pc_%d_%d" % (t, i)) for i in range(S + 1)] for t in range(T)]
    # registers: value of each READ per (thread, call, readindex)
    reads = [i for i, st in enumerate(sh) if st[0] == "READ"]
    # steps[k] (original list, with NSET entries) -> position of that step in `sh`
    reg = {}
    for t in range(T):
        for c in range(calls):
            for r in reads:
                reg[(t, c, r)] = z3.Int("reg_%d_%d_%d" % (t, c, r))
    s.add(counter[0] == c0, lockheld[0] == -1)
    for t in range(T):
        s.add(pc[t][0] == 0)
    # map original step index -> index within shared list
    idx_of = {}
    k = 0
    for j, st in enumerate(steps):
        if st[0] != "NSET":
            idx_of[j] = k
            k += 1
    for i in range(S):
        s.add(sched[i] >= 0, sched[i] < T)
        for t in range(T):
            chosen = sched[i] == t
            s.add(z3.Implies(z3.Not(chosen), pc[t][i + 1] == pc[t][i]))
            s.add(z3.Implies(chosen, z3.And(pc[t][i] < L, pc[t][i + 1] == pc[t][i] + 1)))
            for c in range(calls):
                for j, st in enumerate(sh):
                    at = z3.And(chosen, pc[t][i] == c * per_call + j)
                    if st[0] == "ACQ":
                        s.add(z3.Implies(at, z3.And(lockheld[i] == -1, lockheld[i + 1] == t, counter[i + 1] == counter[i])))
                    elif st[0] == "REL":
                        s.add(z3.Implies(at, z3.And(lockheld[i + 1] == -1, counter[i + 1] == counter[i])))
                    elif st[0] == "SKIP":
                        s.add(z3.Implies(at, z3.And(lockheld[i + 1] == lockheld[i], counter[i + 1] == counter[i])))
                    elif st[0] == "READ":
                        s.add(z3.Implies(at, z3.And(reg[(t, c, j)] == counter[i], counter[i + 1] == counter[i], lockheld[i + 1] == lockheld[i])))
                    elif st[0] == "WRITE":
                        src, add = st[2]
                        s.add(z3.Implies(at, z3.And(counter[i + 1] == reg[(t, c, idx_of_read(steps, sh, src))] + add, lockheld[i + 1] == lockheld[i])))
    for t in range(T):
        s.add(pc[t][S] == L)
    # results
    ns = []
    for t in range(T):
        for c in range(calls):
            src, add = nset[-1][2] if nset else (None, 0)
            ns.append(reg[(t, c, idx_of_read(steps, sh, src))] + add)
    writes = [st for st in sh if st[0] == "WRITE"]
    inc = sum(w[2][1] for w in writes)
    prop = z3.And(z3.Distinct(*ns) if len(ns) > 1 else z3.BoolVal(True), counter[S] == c0 + inc * T * calls)
    s.add(z3.Not(prop))
    r = s.check()
    stats = {"z3_vars": S * (T + 3), "steps": S, "solver_s": round(time.time() - t0, 3), "smt2_bytes": len(s.to_smt2())}
    if r == z3.unsat:
        return ("unsat", stats)
    if r == z3.sat:
        m = s.model()
        return ("sat", [m.eval(x, model_completion=True).as_long() for x in sched], m.eval(c0, model_completion=True).as_long(), stats, s.to_smt2())
    return ("unknown", s.reason_unknown(), stats)


def idx_of_read(steps, sh, original_index):
    """index in `sh` of the READ step that is steps[original_index]"""
    st = steps[original_index]
    return sh.index(st)


# ----------------------------------------------------------------- replay

def replay(fn, steps, T, calls, schedule, c0, module):
    """Run T real threads x `calls` calls of the real fn, serialising the shared steps in the solver's order.
    Returns the list of returned symbols (strings) and the final counter."""
    mon = sys.monitoring
    tool = 3
    code = fn.__code__
    sh = shared_steps(steps)
    offsets = [st[1] for st in sh]
    offset_set = set(offsets)
    cond = threading.Condition()
    state = {"pos": 0, "pending": {}, "done": False}
    tids = {}
    results = [[] for _ in range(T)]

    def cb(code_, offset):
        if code_ is not code:
            return
        me = tids.get(threading.get_ident())
        if me is None:
            return
        with cond:
            if state["pending"].get(me):
                state["pending"][me] = False
                state["pos"] += 1
                cond.notify_all()
            if offset in offset_set:
                deadline = time.time() + 10
                while not state["done"] and (state["pos"] >= len(schedule) or schedule[state["pos"]] != me):
                    if not cond.wait(timeout=0.5) and time.time() > deadline:
                        state["done"] = True
                        cond.notify_all()
                        return
                state["pending"][me] = True

    setattr(module, "_gensym_counter", c0)
    mon.use_tool_id(tool, "vf-bmc-replay")
    try:
        mon.register_callback(tool, mon.events.INSTRUCTION, cb)
        mon.set_local_events(tool, code, mon.events.INSTRUCTION)

        def worker(t):
            tids[threading.get_ident()] = t
            for _ in range(calls):
                results[t].append(str(fn()))
            with cond:
                if state["pending"].get(t):
                    state["pending"][t] = False
                    state["pos"] += 1
                    cond.notify_all()

        ths = [threading.Thread(target=worker, args=(t,)) for t in range(T)]
        for th in ths:
            th.start()
        for th in ths:
            th.join(30)
    finally:
        mon.set_local_events(tool, code, 0)
        mon.register_callback(tool, mon.events.INSTRUCTION, None)
        mon.free_tool_id(tool)
    return results, getattr(module, "_gensym_counter"), state["done"]
