"""Engine B: skeleton programs (s-expressions in Python tuples), their rendering
to Hy text, compilation through the real Hy pipeline, and the comparison of
the compiled code's observable behaviour with the reference semantics under
symbolic inputs."""
import ast
import re
import types

from vf import refsem
from vf.envobj import EXC, V, mkCM, mkE, same, E1, E2, E3, pick_exc

# ------------------------------------------------------------------ rendering


def hy_str(s):
    out = ['"']
    for c in s:
        if c == '"':
            out.append('\\"')
        elif c == "\\":
            out.append("\\\\")
        elif c == "\n":
            out.append("\\n")
        else:
            out.append(c)
    out.append('"')
    return "".join(out)


_CLOSE = {"[": "]", "#(": ")", "{": "}", "#{": "}"}


def render(x):
    if isinstance(x, str):
        return x
    if x is None:
        return "None"
    if x is True:
        return "True"
    if x is False:
        return "False"
    if isinstance(x, (int, float)):
        return repr(x)
    if isinstance(x, tuple):
        if not x:
            return "()"
        h = x[0]
        if h == "str":
            return hy_str(x[1])
        if h == ":":
            return ":" + x[1]
        if h in _CLOSE:
            return h + " ".join(render(a) for a in x[1:]) + _CLOSE[h]
        if h == "unpack-iterable":
            return "#* " + render(x[1])
        if h == "unpack-mapping":
            return "#** " + render(x[1])
        if h == "call":
            return "(" + " ".join(render(a) for a in x[1:]) + ")"
        if h == "raw":
            return x[1]
        return "(" + " ".join(render(a) for a in x) + ")"
    raise TypeError("cannot render %r" % (x,))


def norm(x):
    """('call', f, args...) -> (f, args...) for the oracle."""
    if isinstance(x, tuple):
        if x and x[0] == "call":
            return tuple(norm(a) for a in x[1:])
        if x and x[0] in ("str", ":", "raw"):
            return x
        return tuple(norm(a) for a in x)
    return x


# ------------------------------------------------------------ free variables

_VAR = re.compile(r"^(v|x|xs|t)(\d+)$")


def scan(x, acc=None):
    """Collect input variables (v<i>: value object, x<i>: int, xs<i>: list of
    int), effect sites and whether CM is used."""
    acc = acc if acc is not None else {"v": set(), "x": set(), "xs": set(), "sites": set(), "cm": False}
    if isinstance(x, str):
        m = _VAR.match(x)
        if m and m.group(1) in ("v", "x", "xs"):
            acc[m.group(1)].add(int(m.group(2)))
    elif isinstance(x, tuple) and x:
        if x[0] in ("str", ":", "raw"):
            return acc
        if x[0] == "E" and len(x) > 1 and isinstance(x[1], int):
            acc["sites"].add(x[1])
        if x[0] == "CM" and len(x) > 1 and isinstance(x[1], int):
            acc["cm"] = True
            acc["sites"].add(x[1])
            acc["sites"].add(x[1] + 1)
        for a in x:
            scan(a, acc)
    return acc


# ---------------------------------------------------------------- compilation

_MODCOUNT = [0]


def compile_prog(text, filename="<skel>", wrap=None):
    """text -> ("ok", stmts_code, expr_code, ast_module, ast_expr) | ("compile-error", excname, msg)
    via the real reader and compiler (same steps as hy.eval)."""
    import hy
    from hy.compiler import hy_compile
    from hy.reader import read_many
    from hy.errors import HyLanguageError
    import hy.core.util

    _MODCOUNT[0] += 1
    mod = types.ModuleType("vfskel_%d" % _MODCOUNT[0])
    try:
        tree = hy.models.Expression([hy.models.Symbol("do")] + list(read_many(text, filename=filename, skip_shebang=False)))
        m, e = hy_compile(tree, mod, root=ast.Module, get_expr=True, filename=filename, source=text)
        if wrap is not None:
            m, e = wrap(m, e)
        c1 = compile(m, filename, "exec")
        c2 = compile(e, filename, "eval")
        return ("ok", c1, c2, m, e)
    except (HyLanguageError, SyntaxError) as ex:
        return ("compile-error", type(ex).__name__, str(getattr(ex, "msg", ex))[:200])
    except Exception as ex:
        # an internal compiler error on this program: the harness reports it as a
        # disagreement (no code to run) instead of dying at import
        return ("compile-crash", type(ex).__name__, str(ex)[:200])


def run_code(prog, g):
    types.FunctionType(prog[1], g)()
    return types.FunctionType(prog[2], g)()


# -------------------------------------------------------------- environments


def fill_env(g, E, CMf, vals):
    g["E"] = E
    g["CM"] = CMf
    g["E1"] = E1
    g["E2"] = E2
    g["E3"] = E3
    g["F"] = _F
    for name, spec in vals:
        if spec[0] == "V":
            g[name] = V(spec[1], spec[2])
        elif spec[0] == "L":
            g[name] = list(spec[1])
        else:
            g[name] = spec[1]


def _F(*a, **kw):
    return (a, tuple(sorted(kw.items())))


HIDDEN = ("hy", "__builtins__")


def visible(g):
    out = {}
    for k in g:
        if k in HIDDEN or k.startswith("_hy_") or "__let" in k:
            continue
        out[k] = g[k]
    return out


class Outcome:
    __slots__ = ("kind", "val", "log", "vars", "relaxed")

    def __init__(self, kind, val, log, vars_):
        self.kind, self.val, self.log, self.vars = kind, val, log, vars_


def run_compiled(prog, vals, k=-1, exc=0, sup=False, k2=-1, exc2=0):
    log = []
    g = {}
    E = mkE(log, k, exc, k2, exc2)
    fill_env(g, E, mkCM(E, sup), vals)
    try:
        v = run_code(prog, g)
        kind = "value"
    except Exception as e:
        v = e
        kind = "raise"
    return Outcome(kind, v, log, g)


def run_oracle(sk, vals, k=-1, exc=0, sup=False, k2=-1, exc2=0, gfor_lazy_first=False):
    w = refsem.World()
    g = {}

    def E(site, v=None):
        w.event(site)
        if site == k:
            raise pick_exc(exc)("fault@%d" % site)
        if site == k2:
            raise pick_exc(exc2)("fault2@%d" % site)
        return v

    fill_env(g, E, mkCM(E, sup), vals)
    it = refsem.Interp(w, g)
    it.gfor_lazy_first = gfor_lazy_first
    try:
        v = it.run(sk)
        kind = "value"
    except refsem.RefError:
        raise
    except (refsem._Return, refsem._Break, refsem._Continue):
        raise refsem.RefError("control transfer escaped")
    except Exception as e:
        v = e
        kind = "raise"
    o = Outcome(kind, v, w.log, g)
    o.relaxed = kind == "raise" and w.relaxed
    return o


def _has_head(sk, h):
    if isinstance(sk, tuple):
        if sk and sk[0] == h:
            return True
        for a in sk:
            if _has_head(a, h):
                return True
    return False


EXPLAIN = [False]  # set by the native replay: collect a diagnosis in LAST_WHY
LAST_WHY = []


def agree(prog, sk, vals, k=-1, exc=0, sup=False, why=None, k2=-1, exc2=0):
    """The Engine-B postcondition."""
    if why is None and EXPLAIN[0]:
        del LAST_WHY[:]
        why = LAST_WHY
    if prog[0] != "ok":
        if why is not None:
            why.append("compiler rejected: %s %s" % (prog[1], prog[2]))
        return False
    if _agree_once(prog, sk, vals, k, exc, sup, why, k2, exc2, False):
        return True
    if _has_head(sk, "gfor"):
        # see refsem.Interp.gfor_lazy_first: the docs only say that gfor is lazy; accepted are (False) Python's generator
        # expression: first iterable evaluated and iter() called at creation, (True) nothing at all before the first
        # next(), ("expr") first iterable evaluated at creation, iter() at the first next()
        if _agree_once(prog, sk, vals, k, exc, sup, why, k2, exc2, True):
            return True
        return _agree_once(prog, sk, vals, k, exc, sup, why, k2, exc2, "expr")
    return False


def _agree_once(prog, sk, vals, k, exc, sup, why, k2, exc2, lazy):
    a = run_compiled(prog, vals, k, exc, sup, k2, exc2)
    b = run_oracle(sk, vals, k, exc, sup, k2, exc2, lazy)
    if a.kind != b.kind:
        if why is not None:
            why.append("kind %s(%r) vs oracle %s(%r)" % (a.kind, a.val, b.kind, b.val))
        return False
    av, bv = a.val, b.val
    if hasattr(av, "__next__") and hasattr(bv, "__next__"):
        # lazy: before the first next() nothing may have run except (optionally)
        # the leftmost iterable, which a native generator expression evaluates at
        # creation and Hy's generator-function strategy at the first next()
        if not refsem.log_matches_relaxed(list(a.log), b.log):
            if why is not None:
                why.append("laziness: log %r vs %r" % (a.log, b.log))
            return False
        try:
            av = list(av)
        except Exception as e:
            av = e
        try:
            bv = list(bv)
        except Exception as e:
            bv = e
    if not same(av, bv):
        if why is not None:
            why.append("value %r vs oracle %r" % (av, bv))
        return False
    if b.relaxed:
        # order-dependent outcome: an exception cut an unordered sibling group short;
        # which siblings ran (and which bindings exist) is unspecified
        if not refsem.log_matches_relaxed(list(a.log), b.log):
            if why is not None:
                why.append("relaxed log %r vs oracle %r" % (a.log, b.log))
            return False
        return True
    if not refsem.log_matches(list(a.log), b.log):
        if why is not None:
            why.append("log %r vs oracle %r" % (a.log, b.log))
        return False
    a.vars = visible(a.vars)  # after draining generators
    b.vars = visible(b.vars)
    if len(a.vars) != len(b.vars):
        if why is not None:
            why.append("visible names %r vs oracle %r" % (sorted(a.vars), sorted(b.vars)))
        return False
    for name in a.vars:
        if name not in b.vars:
            if why is not None:
                why.append("name %s leaked" % name)
            return False
        if name in ("E", "CM", "F"):
            continue
        if not same(a.vars[name], b.vars[name]):
            if why is not None:
                why.append("binding %s: %r vs oracle %r" % (name, a.vars[name], b.vars[name]))
            return False
    return True


# ---------------------------------------------------------- harness generation

PREAMBLE = '''\
import sys
from typing import List, Dict, Tuple, Optional
from vf import skel as _sk
'''


def harness_src(name, sk, fault=False, exc=False, sup=False, xs_len=2, twin=False, text=None,
                int_box=None, agree_fn="_sk.agree", extra_pre=(), fault2=False):
    """Source for one Engine-B harness function + its module-level compile."""
    info = scan(sk)
    text = text if text is not None else render(sk)
    params = []
    vals = []
    pre = []
    for i in sorted(info["v"]):
        params.append("t%d: bool" % i)
        vals.append('("v%d", ("V", %d, t%d))' % (i, i, i))
    for i in sorted(info["x"]):
        params.append("x%d: int" % i)
        vals.append('("x%d", ("N", x%d))' % (i, i))
        if int_box:
            pre.append("%d <= x%d <= %d" % (int_box[0], i, int_box[1]))
    for i in sorted(info["xs"]):
        params.append("xs%d: List[int]" % i)
        vals.append('("xs%d", ("L", xs%d))' % (i, i))
        pre.append("len(xs%d) <= %d" % (i, xs_len))
    nsites = (max(info["sites"]) + 1) if info["sites"] else 0
    kw = []
    if fault and nsites:
        params.append("k: int")
        pre.append("-1 <= k < %d" % nsites)
        kw.append("k=k")
    if exc:
        params.append("exc: int")
        pre.append("0 <= exc <= 2")
        kw.append("exc=exc")
    if fault2 and nsites:
        params.append("k2: int")
        pre.append("-1 <= k2 < %d" % nsites)
        kw.append("k2=k2")
        if exc:
            params.append("exc2: int")
            pre.append("0 <= exc2 <= 2")
            kw.append("exc2=exc2")
    if sup or info["cm"] and sup is not False:
        params.append("sup: bool")
        kw.append("sup=sup")
    pre.extend(extra_pre)
    lines = []
    lines.append("P_%s = _sk.compile_prog(%r)" % (name, text))
    lines.append("S_%s = _sk.norm(%r)" % (name, sk))
    lines.append("def %s(%s) -> bool:" % (name, ", ".join(params)))
    lines.append('    """')
    for p in pre:
        lines.append("    pre: " + p)
    lines.append("    post: _")
    lines.append('    """')
    call = "%s(P_%s, S_%s, [%s]%s)" % (agree_fn, name, name, ", ".join(vals), "".join(", " + s for s in kw))
    if twin:
        lines.append("    %s" % call)
        lines.append("    return False")
    else:
        lines.append("    return %s" % call)
    return "\n".join(lines), text


def explain(sk, vals_concrete, k=-1, exc=0, sup=False, text=None):
    """Native diagnosis for a counterexample."""
    why = []
    prog = compile_prog(text if text is not None else render(sk))
    agree(prog, norm(sk), vals_concrete, k, exc, sup, why)
    return why


# ------------------------------------------------------------- C14: hy2py pair


def compile_pair(text, filename="<skel>"):
    """Compile `(setv RESULT (do <text>))` as hy2py does (hy_compile of the whole
    module), then produce (code from the AST, code from ast.unparse of that AST)."""
    import hy
    from hy.compiler import hy_compile
    from hy.reader import read_many
    from hy.errors import HyLanguageError

    _MODCOUNT[0] += 1
    mod = types.ModuleType("vfpair_%d" % _MODCOUNT[0])
    full = "(setv RESULT (do " + text + "\n))"
    try:
        m = hy_compile(read_many(full, filename=filename), mod, filename=filename, source=full)
    except (HyLanguageError, SyntaxError) as ex:
        return ("compile-error", type(ex).__name__, str(getattr(ex, "msg", ex))[:200])
    ca = compile(m, filename, "exec")
    src = ast.unparse(m)  # the call hy2py_worker makes (hy.compat may have wrapped it)
    try:
        tree = ast.parse(src)
        cb = compile(tree, filename + ".py", "exec")
    except (SyntaxError, ValueError) as ex:
        return ("unparse-error", type(ex).__name__, str(ex)[:200], src)
    return ("ok", ca, cb, src)


def _run_module_code(code, vals, k, exc, sup):
    log = []
    g = {}
    E = mkE(log, k, exc)
    fill_env(g, E, mkCM(E, sup), vals)
    try:
        types.FunctionType(code, g)()
        kind = "value"
        v = g.get("RESULT")
    except Exception as e:
        kind = "raise"
        v = e
    return kind, v, log, g


def agree_pair(pair, vals, k=-1, exc=0, sup=False, why=None):
    if why is None and EXPLAIN[0]:
        del LAST_WHY[:]
        why = LAST_WHY
    if pair[0] != "ok":
        if why is not None:
            why.append("%s: %r" % (pair[0], pair[1:]))
        return False
    ka, va, la, ga = _run_module_code(pair[1], vals, k, exc, sup)
    kb, vb, lb, gb = _run_module_code(pair[2], vals, k, exc, sup)
    if ka != kb:
        if why is not None:
            why.append("kind %s(%r) vs unparsed %s(%r)" % (ka, va, kb, vb))
        return False
    if hasattr(va, "__next__") and hasattr(vb, "__next__"):
        try:
            va = list(va)
        except Exception as e:
            va = e
        try:
            vb = list(vb)
        except Exception as e:
            vb = e
    if not same(va, vb):
        if why is not None:
            why.append("value %r vs unparsed %r" % (va, vb))
        return False
    if len(la) != len(lb):
        if why is not None:
            why.append("log %r vs unparsed %r" % (la, lb))
        return False
    for x, y in zip(la, lb):
        if x != y:
            if why is not None:
                why.append("log %r vs unparsed %r" % (la, lb))
            return False
    if len(ga) != len(gb):
        if why is not None:
            why.append("globals %r vs unparsed %r" % (sorted(ga), sorted(gb)))
        return False
    for name in ga:
        if name not in gb:
            if why is not None:
                why.append("global %s missing in unparsed run" % name)
            return False
        if name in ("E", "CM", "F", "__builtins__", "hy"):
            continue
        if not same(ga[name], gb[name]):
            if why is not None:
                why.append("binding %s: %r vs unparsed %r" % (name, ga[name], gb[name]))
            return False
    return True


def pair_harness_src(name, sk, fault=True, twin=False, text=None, xs_len=2, int_box=None):
    src, text = harness_src(name, sk, fault=fault, exc=False, sup=False, xs_len=xs_len, twin=twin, text=text, int_box=int_box,
                            agree_fn="_sk.agree_pair")
    # replace the two module-level lines: P_ = compile_pair, drop S_
    lines = src.split("\n")
    lines[0] = "P_%s = _sk.compile_pair(%r)" % (name, text)
    lines[1] = "S_%s = None" % name
    out = "\n".join(lines).replace("_sk.agree_pair(P_%s, S_%s, " % (name, name), "_sk.agree_pair(P_%s, " % name)
    return out, text


def box(v, lo, hi):
    """Fold an unconstrained symbolic int into lo..hi and make it concrete by explicit forks.
    (Preconditions on ints make CrossHair spend most paths on values that violate them; folding has no rejected paths.)"""
    r = lo + (v % (hi - lo + 1))
    for c in range(lo, hi + 1):
        if r == c:
            return c
    return lo


def pick_str(alph, idxs):
    """Concrete string from selector ints (each folded into -1..len(alph)-1; -1 = no character)."""
    out = ""
    for i in idxs:
        k = box(i, -1, len(alph) - 1)
        if k >= 0:
            out += alph[k]
    return out
