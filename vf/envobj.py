"""Environment objects shared by the compiled side and the oracle side of an
Engine-B harness.  Each side gets its own instances (no shared state)."""


class E1(Exception):
    pass


class E2(E1):
    pass


class E3(Exception):
    pass


EXC = [E1, E2, E3]


class V:
    """Value object with solver-chosen truthiness and an observable identity."""

    __slots__ = ("tag", "t")

    def __init__(self, tag, t):
        self.tag = tag
        self.t = t

    def __bool__(self):
        # fork explicitly: CPython rejects a symbolic proxy returned from __bool__
        if self.t:
            return True
        return False

    def __repr__(self):
        return "V%s" % (self.tag,)


def pick_exc(i):
    """EXC[i] with explicit forks (a symbolic list index would yield a symbolic type)."""
    if i == 0:
        return E1
    if i == 1:
        return E2
    return E3


def mkE(log, k=-1, exc=0, k2=-1, exc2=0):
    def E(site, v=None):
        log.append(site)
        if site == k:
            raise pick_exc(exc)("fault@%d" % site)
        if site == k2:
            raise pick_exc(exc2)("fault2@%d" % site)
        return v

    return E


class CM:
    """Context manager: enter logs site, exit logs site+1; faults via E."""

    def __init__(self, E, site, val=None, sup=False):
        self.E = E
        self.site = site
        self.val = val
        self.sup = sup

    def __enter__(self):
        self.E(self.site)
        return self.val

    def __exit__(self, et, ev, tb):
        self.E(self.site + 1)
        if self.sup:
            return True
        return False


def mkCM(E, sup):
    def CMf(site, val=None):
        return CM(E, site, val, sup)

    return CMf


class Either:
    """Oracle-side value for an outcome the documentation leaves open: any of the alternatives is accepted."""

    def __init__(self, *alts):
        self.alts = alts

    def __repr__(self):
        return "Either%r" % (self.alts,)


def same(a, b, _depth=0):
    """Observable equality of two results (one per side)."""
    if isinstance(b, Either):
        for alt in b.alts:
            if same(a, alt, _depth + 1):
                return True
        return False
    if _depth > 12:
        # self-referential containers: compared up to this depth
        return True
    if isinstance(a, V) or isinstance(b, V):
        return isinstance(a, V) and isinstance(b, V) and a.tag == b.tag
    if a is None or b is None:
        return a is None and b is None
    if isinstance(a, bool) or isinstance(b, bool):
        return isinstance(a, bool) and isinstance(b, bool) and a == b
    if isinstance(a, CM) or isinstance(b, CM):
        return isinstance(a, CM) and isinstance(b, CM) and a.site == b.site
    if isinstance(a, (int, float, str)) and isinstance(b, (int, float, str)):
        # symbolic scalars: compare directly (callable()/hasattr() would realise them)
        return a == b
    if isinstance(a, (int, float, str)) or isinstance(b, (int, float, str)):
        return False
    if isinstance(a, BaseException) or isinstance(b, BaseException):
        return type(a).__name__ == type(b).__name__
    if isinstance(a, (list, tuple)) or isinstance(b, (list, tuple)):
        if isinstance(a, list) != isinstance(b, list) or isinstance(a, tuple) != isinstance(b, tuple):
            return False
        if len(a) != len(b):
            return False
        for x, y in zip(a, b):
            if not same(x, y, _depth + 1):
                return False
        return True
    if isinstance(a, dict) or isinstance(b, dict):
        if not (isinstance(a, dict) and isinstance(b, dict)) or len(a) != len(b):
            return False
        # key-wise, not in insertion order: CrossHair's dict model does not keep the
        # insertion order of symbolic keys, so order is not compared (stated in DESIGN)
        for k1 in a:
            if k1 not in b:
                return False
            if not same(a[k1], b[k1], _depth + 1):
                return False
        return True
    if isinstance(a, (set, frozenset)) or isinstance(b, (set, frozenset)):
        return type(a) is type(b) and a == b
    if callable(a) or callable(b):
        return callable(a) and callable(b)
    if hasattr(a, "__next__") or hasattr(b, "__next__"):
        return hasattr(a, "__next__") and hasattr(b, "__next__")
    return a == b
