"""Run the repo's pinned test command and compare with /root/.vp/BASELINE.json stable_pass."""
import json, subprocess, sys, tempfile, os
import xml.etree.ElementTree as ET
b = json.load(open("/root/.vp/BASELINE.json"))
fd, path = tempfile.mkstemp(suffix=".xml"); os.close(fd)
subprocess.run(["/venv/bin/python", "-m", "pytest", "-ra", "-q", "-p", "no:cacheprovider", "--timeout=900",
                "--continue-on-collection-errors", "--junitxml=" + path], cwd="/repo", stdout=subprocess.DEVNULL, stderr=subprocess.DEVNULL)
passed = set()
for tc in ET.parse(path).getroot().iter("testcase"):
    if not any(ch.tag in ("failure", "error", "skipped") for ch in tc):
        passed.add(tc.get("classname") + "::" + tc.get("name"))
os.unlink(path)
want = set(b["stable_pass"])
missing = sorted(want - passed)
print("stable_pass=%d passed_now=%d missing=%d" % (len(want), len(passed), len(missing)))
for m in missing[:20]: print("  MISSING", m)
sys.exit(1 if missing else 0)
